package main

import (
	"encoding/json"
	"flag"
	"fmt"
	"os"
	"path/filepath"
	"sort"
	"strings"
)

var (
	repoDir = "/repo"
	verifDir = "/verif"
)

func loadSpecs() (*Specs, error) {
	S := NewSpecs()
	for _, f := range []string{filepath.Join(repoDir, "verif_contracts.go"), filepath.Join(repoDir, "mqtttest", "verif_contracts.go")} {
		if _, err := os.Stat(f); err == nil {
			if err := S.LoadFile(f, true); err != nil {
				return nil, err
			}
		}
	}
	specs, _ := filepath.Glob(filepath.Join(verifDir, "contracts", "*.spec"))
	sort.Strings(specs)
	for _, f := range specs {
		if err := S.LoadFile(f, false); err != nil {
			return nil, err
		}
	}
	if err := S.Finish(); err != nil {
		return nil, err
	}
	return S, nil
}

func main() {
	if len(os.Args) < 2 {
		fmt.Fprintln(os.Stderr, "usage: govc verify|check|funcs|loops ...")
		os.Exit(2)
	}
	if d := os.Getenv("GOVC_REPO"); d != "" {
		repoDir = d
	}
	switch os.Args[1] {
	case "funcs":
		P, err := LoadProgram(repoDir)
		must(err)
		for _, k := range sortedKeys(P.Funcs) {
			fmt.Println(k)
		}
	case "loops":
		P, err := LoadProgram(repoDir)
		must(err)
		for _, k := range os.Args[2:] {
			fn := P.Funcs[k]
			if fn == nil {
				fmt.Println("no such function", k)
				continue
			}
			for _, l := range findLoops(fn) {
				p := P.Fset.Position(firstPos(l.Head))
				fmt.Printf("%s loop %d: head block %d (%s) %s:%d, %d blocks\n", k, l.Ordinal, l.Head.Index, l.Head.Comment, shortFile(p.Filename), p.Line, len(l.Body))
			}
		}
	case "props":
		S, err := loadSpecs()
		must(err)
		out := map[string][]string{}
		for k, c := range S.Contracts {
			if c.Trusted || c.Unverified {
				continue
			}
			for p := range c.Props {
				out[p] = append(out[p], k)
			}
		}
		for _, v := range out {
			sort.Strings(v)
		}
		data, _ := json.MarshalIndent(out, "", " ")
		fmt.Println(string(data))
	case "sweep":
		P, err := LoadProgram(repoDir)
		must(err)
		S, err := loadSpecs()
		must(err)
		keys := os.Args[2:]
		if len(keys) == 0 {
			keys = sortedKeys(P.Funcs)
		}
		for _, k := range keys {
			if strings.HasSuffix(k, ".init") {
				continue
			}
			r := VerifyFunction(P, S, k)
			if r.Err != "" {
				fmt.Printf("ERR  %-50s %s\n", k, trunc(oneLine(r.Err), 200))
				continue
			}
			fmt.Printf("ok   %-50s %d obligations\n", k, len(r.Obls))
		}
	case "verify":
		fs := flag.NewFlagSet("verify", flag.ExitOnError)
		timeout := fs.Int("t", 10, "solver timeout (s)")
		keep := fs.String("out", "/tmp/govc-out", "directory for SMT files")
		verbose := fs.Bool("v", false, "verbose")
		fs.Parse(os.Args[2:])
		P, err := LoadProgram(repoDir)
		must(err)
		S, err := loadSpecs()
		must(err)
		bad := 0
		keys := fs.Args()
		if len(keys) == 1 && keys[0] == "all" {
			keys = nil
			for k, c := range S.Contracts {
				if !c.Trusted && !c.Unverified {
					keys = append(keys, k)
				}
			}
			sort.Strings(keys)
		}
		for _, k := range keys {
			r := VerifyFunction(P, S, k)
			if r.Err != "" {
				fmt.Printf("%s: ENGINE ERROR: %s\n", k, r.Err)
				bad++
			}
			d := &Discharger{Dir: *keep, Timeout: *timeout, Workers: 12}
			d.Run(r.Obls)
			for _, o := range r.Obls {
				if o.Slow && *timeout < 60 {
					continue
				}
				status := o.Res.Answer
				okay := status == "unsat"
				if o.IsCanary {
					okay = status == "sat"
				}
				mark := "ok  "
				if !okay {
					mark = "FAIL"
					bad++
				}
				if *verbose || !okay {
					fmt.Printf("  %s %-46s %-8s %-7s %5.2fs %s  %s\n", mark, o.Name, status, o.Res.Solver, o.Res.Secs, o.Src, trunc(o.Text, 90))
					if !okay && o.Res.Answer == "error" {
						fmt.Println("       ", trunc(o.Res.Raw, 400))
					}
				}
			}
			fmt.Printf("%s: %d obligations, notes: %s\n", k, len(r.Obls), strings.Join(r.Notes, "; "))
		}
		if bad > 0 {
			os.Exit(1)
		}
	default:
		mainCheck(os.Args[1:])
	}
}

func trunc(s string, n int) string {
	if len(s) > n {
		return s[:n] + "…"
	}
	return s
}

func must(err error) {
	if err != nil {
		fmt.Fprintln(os.Stderr, "govc:", err)
		os.Exit(2)
	}
}
