package main

// Interfaces, type assertions, maps, channels, select, range.

import (
	"fmt"
	"go/token"
	"go/types"
	"strings"

	"golang.org/x/tools/go/ssa"
)

var typeIDs = map[string]int64{}

// typeID: positive for types defined in the module (or pointers to them),
// negative for all others (dynamic types of foreign values are negative).
func typeID(t types.Type) int64 {
	k := typeName(t)
	if id, ok := typeIDs[k]; ok {
		return id
	}
	id := int64(len(typeIDs) + 1)
	if !moduleType(t) {
		id = -id - 1000
	}
	typeIDs[k] = id
	return id
}

func moduleType(t types.Type) bool {
	if p, ok := t.(*types.Pointer); ok {
		return moduleType(p.Elem())
	}
	if n, ok := t.(*types.Named); ok && n.Obj().Pkg() != nil {
		return strings.HasPrefix(n.Obj().Pkg().Path(), modPath)
	}
	return false
}

// makeInterface boxes a concrete value. Pointers and other single-handle
// kinds keep their handle (so identity comparisons stay cheap); the dynamic
// type is recorded through the uninterpreted dyntype function.
func (x *Exec) makeInterface(st *State, v Value, it types.Type) Value {
	if _, isIface := v.T.Underlying().(*types.Interface); isIface {
		return Value{T: it, C: v.C}
	}
	if v.P != nil && len(v.C) == 0 {
		// only as an immediate argument (errors.As target): remember the pointer
		h := Fresh("boxedptr", SInt)
		x.boxed[h] = v
		return Value{T: it, C: []*Term{h}}
	}
	tn := typeName(v.T)
	var h *Term
	switch v.T.Underlying().(type) {
	case *types.Pointer:
		// box.ptr(ref): negative, injective in ref, nil pointer stays non-nil interface
		h = App("box."+tn, SInt, v.C...)
	default:
		h = App("box."+tn, SInt, v.C...)
	}
	x.assumeTrue(Lt(h, Num(0)))
	x.assumeTrue(Eq(App("dyntype", SInt, h), Num(typeID(v.T))))
	x.assumeTrue(Not(App("perr", SBool, h)))
	if _, isPtr := v.T.Underlying().(*types.Pointer); isPtr {
		x.boxed[h] = v
	}
	if id := typeID(v.T); id > 0 {
		// a module value used as an error wraps nothing (no Unwrap methods in the module):
		// errors.As finds exactly its own type in it
		tb := BVar("t?bx", SInt)
		x.assumeNeed("AsT", Forall([]*Term{tb}, Implies(Gt(tb, Num(0)), Eq(App("AsT", SBool, h, tb), Eq(tb, Num(id)))), App("AsT", SBool, h, tb)))
		// ... and errors.Is matches it only with itself (no Is/Unwrap methods either)
		ti := BVar("t?bi", SInt)
		x.assumeNeed("Is", Forall([]*Term{ti}, Eq(App("Is", SBool, h, ti), Eq(ti, h)), App("Is", SBool, h, ti)))
	}
	for k, c := range Flatten(v.T) {
		x.assumeTrue(Eq(App(fmt.Sprintf("unbox.%s.%d", tn, k), c.Sort, h), v.C[k]))
	}
	return Value{T: it, C: []*Term{h}}
}

func (f *frame) typeAssert(i *ssa.TypeAssert, n *node, st *State) *State {
	x := f.x
	v := f.get(i.X, n, st)
	h := v.One()
	var ok *Term
	var val Value
	if _, isIface := i.AssertedType.Underlying().(*types.Interface); isIface {
		ok = And(Ne(h, Num(0)), App("implements."+typeName(i.AssertedType), SBool, App("dyntype", SInt, h)))
		val = Value{T: i.AssertedType, C: []*Term{h}}
	} else {
		tn := typeName(i.AssertedType)
		ok = And(Ne(h, Num(0)), Eq(App("dyntype", SInt, h), Num(typeID(i.AssertedType))))
		comps := Flatten(i.AssertedType)
		val = Value{T: i.AssertedType, C: make([]*Term, len(comps))}
		for k, c := range comps {
			val.C[k] = App(fmt.Sprintf("unbox.%s.%d", tn, k), c.Sort, h)
		}
		x.assume(TTrue, Implies(ok, WFValue(val)), "type")
	}
	if i.CommaOk {
		zero := ZeroValue(i.AssertedType)
		r := valueIte(ok, val, zero)
		f.setReg(i, n.Ctx, Value{T: i.Type(), C: append(append([]*Term{}, r.C...), ok)})
		return st
	}
	x.oblige("typeassert", nil, st.pc, ok, i.Pos(), "type assertion holds")
	f.setReg(i, n.Ctx, val)
	return st
}

// ---- maps: single-integer keys ----

func mapKeyTerm(x *Exec, k Value) *Term {
	if len(k.C) == 1 {
		return k.C[0]
	}
	if isStringT(k.T) {
		return App("strid", SInt, k.C[0], k.C[1], k.C[2])
	}
	fail("map key type %v (outside the verified subset)", k.T)
	return nil
}

func mapRegions(mt *types.Map) (has string, vals []string, comps []Comp) {
	base := "map." + typeName(mt)
	comps = Flatten(mt.Elem())
	for _, c := range comps {
		vals = append(vals, base+".val"+c.Suffix)
	}
	return base + ".has", vals, comps
}

func (x *Exec) mapInit(st *State, mt *types.Map, ref *Term) {
	has, vals, comps := mapRegions(mt)
	st.setRegion(has, Store(st.region(has, SArr(SArr(SBool))), ref, ConstArr(SArr(SBool), TFalse)))
	for i, c := range comps {
		st.setRegion(vals[i], Store(st.region(vals[i], SArr(SArr(c.Sort))), ref, zeroOf(SArr(c.Sort))))
	}
	st.setRegion("map.len", Store(st.region("map.len", sArrII), ref, Num(0)))
}

// mapInvTerm: the declared content invariant of the map field the operand was loaded from.
func (f *frame) mapInvTerm(mv ssa.Value, v Value, n *node, st *State) *Term {
	fld := chanField(mv)
	if fld == "" {
		return TTrue
	}
	var out []*Term
	for _, mi := range f.x.S.MapInvs {
		if mi.Field != fld {
			continue
		}
		sc := f.x.newSpecCtx(f, n, st, f.x.entryState)
		sc.vars[mi.Var] = v
		out = append(out, sc.evalBool(mi.C.Expr))
	}
	return And(out...)
}

func (f *frame) mapUpdate(i *ssa.MapUpdate, n *node, st *State) {
	x := f.x
	m := f.get(i.Map, n, st)
	mt := m.T.Underlying().(*types.Map)
	k := mapKeyTerm(x, f.get(i.Key, n, st))
	v := f.get(i.Value, n, st)
	if g := f.mapInvTerm(i.Map, v, n, st); !g.IsTrue() {
		x.oblige("mapinv", nil, st.pc, g, i.Pos(), "value stored satisfies the map's content invariant")
	}
	ref := m.One()
	x.oblige("nilmap", nil, st.pc, Ne(ref, Num(0)), i.Pos(), "assignment to entry in nil map")
	has, vals, comps := mapRegions(mt)
	hr := st.region(has, SArr(SArr(SBool)))
	was := Select(Select(hr, ref), k)
	st.setRegion(has, Store(hr, ref, Store(Select(hr, ref), k, TTrue)))
	for j, c := range comps {
		r := st.region(vals[j], SArr(SArr(c.Sort)))
		st.setRegion(vals[j], Store(r, ref, Store(Select(r, ref), k, v.C[j])))
	}
	lr := st.region("map.len", sArrII)
	st.setRegion("map.len", Store(lr, ref, Ite(was, Select(lr, ref), Add(Select(lr, ref), Num(1)))))
}

func (f *frame) mapDelete(m, key Value, st *State) {
	x := f.x
	mt := m.T.Underlying().(*types.Map)
	k := mapKeyTerm(x, key)
	ref := m.One()
	has, _, _ := mapRegions(mt)
	hr := st.region(has, SArr(SArr(SBool)))
	was := Select(Select(hr, ref), k)
	st.setRegion(has, Store(hr, ref, Store(Select(hr, ref), k, TFalse)))
	lr := st.region("map.len", sArrII)
	st.setRegion("map.len", Store(lr, ref, Ite(was, Sub(Select(lr, ref), Num(1)), Select(lr, ref))))
}

func (f *frame) lookup(i *ssa.Lookup, n *node, st *State) {
	x := f.x
	m := f.get(i.X, n, st)
	mt, ok := m.T.Underlying().(*types.Map)
	if !ok {
		fail("Lookup on %v", m.T)
	}
	k := mapKeyTerm(x, f.get(i.Index, n, st))
	ref := m.One()
	has, vals, comps := mapRegions(mt)
	present := Select(Select(st.region(has, SArr(SArr(SBool))), ref), k)
	val := Value{T: mt.Elem(), C: make([]*Term, len(comps))}
	for j, c := range comps {
		val.C[j] = Ite(present, Select(Select(st.region(vals[j], SArr(SArr(c.Sort))), ref), k), zeroOf(c.Sort))
	}
	x.assumeTrue(WFValue(val))
	x.assumeTrue(Le(Num(0), Select(st.region("map.len", sArrII), ref)))
	{
		raw := Value{T: mt.Elem(), C: make([]*Term, len(comps))}
		for j, c := range comps {
			raw.C[j] = Select(Select(st.region(vals[j], SArr(SArr(c.Sort))), ref), k)
		}
		x.assume(st.pc, Implies(present, f.mapInvTerm(i.X, raw, n, st)), "map content invariant")
	}
	if i.CommaOk {
		f.setReg(i, n.Ctx, Value{T: i.Type(), C: append(append([]*Term{}, val.C...), present)})
		return
	}
	f.setReg(i, n.Ctx, val)
}

// ---- range over maps: snapshot rule ----

type rangeState struct {
	mapRef *Term
	mt     *types.Map
}

func (f *frame) rangeInit(i *ssa.Range, n *node, st *State) {
	v := f.get(i.X, n, st)
	if _, ok := v.T.Underlying().(*types.Map); !ok {
		fail("range over %v (only maps reach the Range instruction)", v.T)
	}
	// a new iteration: nothing visited yet
	visited := st.region("ghost.visited", SArr(SArr(SBool)))
	st.setRegion("ghost.visited", Store(visited, v.One(), mk(&Term{Op: "constarr", Args: []*Term{TFalse}, S: SArr(SBool)})))
	f.setReg(i, n.Ctx, Value{T: i.Type(), C: []*Term{v.One()}})
}

func (f *frame) rangeNext(i *ssa.Next, n *node, st *State) {
	x := f.x
	it := f.get(i.Iter, n, st)
	rng := i.Iter.(*ssa.Range)
	mt := rng.X.Type().Underlying().(*types.Map)
	ref := it.One()
	has, vals, comps := mapRegions(mt)
	// the iteration yields some key currently present that was not visited yet
	visited := st.region("ghost.visited", SArr(SArr(SBool)))
	kt := FreshValue("rangekey", mt.Key())
	x.assumeTrue(WFValue(kt))
	k := mapKeyTerm(x, kt)
	present := Select(Select(st.region(has, SArr(SArr(SBool))), ref), k)
	seen := Select(Select(visited, ref), k)
	ok := Fresh("rangeok", SBool)
	// ok ==> key present and unvisited ; !ok ==> every present key was visited
	x.assume(st.pc, Implies(ok, And(present, Not(seen))), "map range")
	kk := BVar(fmt.Sprintf("k?r%d", freshSeq["rangeok"]), SInt)
	x.assume(st.pc, Implies(Not(ok), Forall([]*Term{kk}, Implies(Select(Select(st.region(has, SArr(SArr(SBool))), ref), kk), Select(Select(visited, ref), kk)))), "map range exhausted")
	st.setRegion("ghost.visited", Store(visited, ref, Store(Select(visited, ref), k, TTrue)))
	val := Value{T: mt.Elem(), C: make([]*Term, len(comps))}
	for j, c := range comps {
		val.C[j] = Select(Select(st.region(vals[j], SArr(SArr(c.Sort))), ref), k)
	}
	x.assumeTrue(WFValue(val))
	// the values of a map with a declared content invariant satisfy it
	x.assume(st.pc, Implies(ok, f.mapInvTerm(rng.X, val, n, st)), "map content invariant")
	out := []*Term{ok}
	out = append(out, kt.C...)
	out = append(out, val.C...)
	f.setReg(i, n.Ctx, Value{T: i.Type(), C: out})
}

// ---- channels ----
//
// chan.len, chan.cap : Ref -> Int ; chan.closed : Ref -> Bool
// chan.q.<T><comp> : Ref -> (Int -> comp) with chan.head : Ref -> Int

// channel regions are per element type, so channels of different types never alias
func chReg(kind string, chT types.Type) string { return "chan." + kind + "." + typeName(chanElem(chT)) }

func (x *Exec) chanInit(st *State, chT types.Type, ref, size *Term) {
	st.setRegion(chReg("len", chT), Store(st.region(chReg("len", chT), sArrII), ref, Num(0)))
	st.setRegion(chReg("cap", chT), Store(st.region(chReg("cap", chT), sArrII), ref, size))
	st.setRegion(chReg("head", chT), Store(st.region(chReg("head", chT), sArrII), ref, Num(0)))
	st.setRegion(chReg("closed", chT), Store(st.region(chReg("closed", chT), SArr(SBool)), ref, TFalse))
}

func (x *Exec) chanLen(st *State, ch Value) *Term {
	ref := ch.C[0]
	l := Select(st.region(chReg("len", ch.T), sArrII), ref)
	x.assumeTrue(And(Le(Num(0), l), Le(l, Select(st.region(chReg("cap", ch.T), sArrII), ref))))
	return l
}

func chanElem(t types.Type) types.Type { return t.Underlying().(*types.Chan).Elem() }

func (f *frame) chanSendOp(ch, v Value, st *State, pos token.Pos, blocking bool) {
	x := f.x
	ref := ch.One()
	et := chanElem(ch.T)
	closed := Select(st.region(chReg("closed", ch.T), SArr(SBool)), ref)
	x.oblige("send-closed", nil, st.pc, Not(closed), pos, "send on closed channel")
	ln := x.chanLen(st, ch)
	cp := Select(st.region(chReg("cap", ch.T), sArrII), ref)
	if blocking {
		x.oblige("send-noblock", nil, st.pc, Lt(ln, cp), pos, "send must not block (buffer has room)")
	}
	head := Select(st.region(chReg("head", ch.T), sArrII), ref)
	for j, c := range Flatten(et) {
		name := "chan.q." + typeName(et) + c.Suffix
		r := st.region(name, SArr(SArr(c.Sort)))
		st.setRegion(name, Store(r, ref, Store(Select(r, ref), Add(head, ln), v.C[j])))
	}
	st.setRegion(chReg("len", ch.T), Store(st.region(chReg("len", ch.T), sArrII), ref, Add(ln, Num(1))))
}

func (f *frame) chanSend(i *ssa.Send, n *node, st *State) *State {
	ch := f.get(i.Chan, n, st)
	v := f.get(i.X, n, st)
	// assertions attached to this send (v: the value sent)
	if f.c != nil {
		fld := chanSiteName(i.Chan)
		if fld != "" {
			site := fmt.Sprintf("send %s#%d", fld, f.siteOrd("send "+fld, i.Pos()))
			if as := f.c.CallAsserts[site]; len(as) > 0 {
				f.x.hitSites[site] = true
				for _, a := range as {
					sc := f.x.newSpecCtx(f, n, st, f.x.entryState)
					sc.anchor = i.Pos()
					sc.vars["v"] = v
					g := sc.evalBool(a.Expr)
					o := f.x.oblige("assert@"+site, a.Tags, st.pc, g, i.Pos(), a.Text)
					o.Reveal = a.Reveal
					o.By = a.By
					f.x.assumeLabelled(st.pc, g, "asserted at "+site, a.Label)
				}
			}
		}
	}
	if g := f.chanInvTerm(i.Chan, v, n, st); !g.IsTrue() {
		f.x.oblige("chaninv", nil, st.pc, g, i.Pos(), "value sent satisfies the channel's content invariant")
	}
	f.chanSendOp(ch, v, st, i.Pos(), true)
	return st
}

// chanRecvOp dequeues when the buffer is non-empty; an empty open channel
// yields an arbitrary value (sent by another goroutine meanwhile).
func (f *frame) chanRecvOp(ch Value, st *State) (Value, *Term) {
	x := f.x
	ref := ch.One()
	et := chanElem(ch.T)
	ln := x.chanLen(st, ch)
	closed := Select(st.region(chReg("closed", ch.T), SArr(SBool)), ref)
	head := Select(st.region(chReg("head", ch.T), sArrII), ref)
	nonEmpty := Gt(ln, Num(0))
	comps := Flatten(et)
	other := FreshValue("recv", et)
	x.assumeTrue(WFValue(other))
	x.assumeTrue(x.refsBelowClock(st, other))
	val := Value{T: et, C: make([]*Term, len(comps))}
	for j, c := range comps {
		name := "chan.q." + typeName(et) + c.Suffix
		q := Select(Select(st.region(name, SArr(SArr(c.Sort))), ref), head)
		val.C[j] = Ite(nonEmpty, q, Ite(closed, zeroOf(c.Sort), other.C[j]))
	}
	okFresh := Fresh("recvok", SBool)
	if !f.closable {
		// nobody closes this channel (no close site in the module reaches this field):
		// a receive that had to wait returns a value
		okFresh = TTrue
	}
	ok := Ite(nonEmpty, TTrue, Ite(closed, TFalse, okFresh))
	if ct, isChan := ch.T.Underlying().(*types.Chan); isChan && ct.Dir() == types.RecvOnly {
		// receive-only signal channels (quit, Done, timers): a receive is modelled without consuming
		x.note("receives on receive-only (signal) channels are modelled without consuming a value")
		return val, ok
	}
	if f.closable {
		// a receive that had to wait and got no value: another goroutine closed the channel
		cr := st.region(chReg("closed", ch.T), SArr(SBool))
		st.setRegion(chReg("closed", ch.T), Store(cr, ref, Or(closed, And(Not(nonEmpty), Not(ok)))))
	}
	st.setRegion(chReg("len", ch.T), Store(st.region(chReg("len", ch.T), sArrII), ref, Ite(nonEmpty, Sub(ln, Num(1)), ln)))
	st.setRegion(chReg("head", ch.T), Store(st.region(chReg("head", ch.T), sArrII), ref, Ite(nonEmpty, Add(head, Num(1)), head)))
	return val, ok
}

func (f *frame) chanRecv(i *ssa.UnOp, ch Value, n *node, st *State) *State {
	f.closable = f.x.isClosable(i.X)
	// assertions attached to this blocking receive
	if f.c != nil {
		fld := chanSiteName(i.X)
		if fld != "" {
			site := fmt.Sprintf("recv %s#%d", fld, f.siteOrd("recv "+fld, i.Pos()))
			if as := f.c.CallAsserts[site]; len(as) > 0 {
				f.x.hitSites[site] = true
				for _, a := range as {
					sc := f.x.newSpecCtx(f, n, st, f.x.entryState)
					sc.anchor = i.Pos()
					g := sc.evalBool(a.Expr)
					o := f.x.oblige("assert@"+site, a.Tags, st.pc, g, i.Pos(), a.Text)
					o.Reveal = a.Reveal
					o.By = a.By
					f.x.assumeLabelled(st.pc, g, "asserted at "+site, a.Label)
				}
			}
		}
	}
	val, ok := f.chanRecvOp(ch, st)
	f.x.assume(st.pc, Implies(ok, f.chanInvTerm(i.X, val, n, st)), "channel content invariant")
	f.onClosed(i.X, ok, n, st)
	if i.CommaOk {
		f.setReg(i, n.Ctx, Value{T: i.Type(), C: append(append([]*Term{}, val.C...), ok)})
	} else {
		f.setReg(i, n.Ctx, Value{T: i.Type(), C: val.C})
	}
	return st
}

func (f *frame) chanClose(ch Value, n *node, st *State, pos token.Pos) *State {
	x := f.x
	ref := ch.One()
	cr := st.region(chReg("closed", ch.T), SArr(SBool))
	x.oblige("close-closed", nil, st.pc, And(Ne(ref, Num(0)), Not(Select(cr, ref))), pos, "close of nil or closed channel")
	st.setRegion(chReg("closed", ch.T), Store(cr, ref, TTrue))
	return st
}

// selectStmt: result tuple (index int, recvOk bool, r_0 T0, ...).
func (f *frame) selectStmt(i *ssa.Select, n *node, st *State) *State {
	x := f.x
	// readiness of each case in the current state
	type cs struct {
		ready *Term
		ch    Value
	}
	var cases []cs
	for _, s := range i.States {
		ch := f.get(s.Chan, n, st)
		ref := ch.One()
		ln := x.chanLen(st, ch)
		closed := Select(st.region(chReg("closed", ch.T), SArr(SBool)), ref)
		var ready *Term
		if s.Dir == types.RecvOnly {
			ready = And(Ne(ref, Num(0)), Or(Gt(ln, Num(0)), closed))
		} else {
			ready = And(Ne(ref, Num(0)), Or(Lt(ln, Select(st.region(chReg("cap", ch.T), sArrII), ref)), closed))
		}
		cases = append(cases, cs{ready, ch})
	}
	idx := Fresh("select", SInt)
	var anyReady []*Term
	for _, c := range cases {
		anyReady = append(anyReady, c.ready)
	}
	nCases := int64(len(cases))
	if i.Blocking {
		// some case is chosen; a case that is not ready now may become ready through another goroutine
		x.assume(st.pc, And(Le(Num(0), idx), Lt(idx, Num(nCases))), "select index")
		for k, c := range cases {
			others := Or(anyReady...)
			// if any case is ready, the chosen one is ready
			x.assume(st.pc, Implies(And(others, Eq(idx, Num(int64(k)))), c.ready), "select picks a ready case")
		}
	} else {
		x.assume(st.pc, And(Le(Num(-1), idx), Lt(idx, Num(nCases))), "select index")
		x.assume(st.pc, Eq(Eq(idx, Num(-1)), Not(Or(anyReady...))), "default iff nothing ready")
		for k, c := range cases {
			x.assume(st.pc, Implies(Eq(idx, Num(int64(k))), c.ready), "select picks a ready case")
		}
	}
	// effects per case, merged
	var outs []*State
	var results [][]*Term // per state: recvOk + received values
	base := st
	tt := i.Type().(*types.Tuple)
	for k, s := range i.States {
		b := base.clone()
		b.pc = And(base.pc, Eq(idx, Num(int64(k))))
		recvOk := TFalse
		var recvVals []*Term
		if s.Dir == types.RecvOnly {
			f.closable = x.isClosable(s.Chan)
			// assertions attached to this receiving case (checked when it is the one taken)
			if f.c != nil {
				if fld := chanSiteName(s.Chan); fld != "" {
					site := fmt.Sprintf("selrecv %s#%d", fld, f.siteOrd("selrecv "+fld, s.Pos))
					if as := f.c.CallAsserts[site]; len(as) > 0 {
						x.hitSites[site] = true
						for _, a := range as {
							sc := x.newSpecCtx(f, n, b, x.entryState)
							sc.anchor = s.Pos
							g := sc.evalBool(a.Expr)
							o := x.oblige("assert@"+site, a.Tags, b.pc, g, s.Pos, a.Text)
							o.Reveal = a.Reveal
							o.By = a.By
							x.assumeLabelled(b.pc, g, "asserted at "+site, a.Label)
						}
					}
				}
			}
			v, ok := f.chanRecvOp(cases[k].ch, b)
			recvOk = ok
			recvVals = v.C
			x.assume(b.pc, Implies(ok, f.chanInvTerm(s.Chan, v, n, b)), "channel content invariant")
			f.onClosed(s.Chan, ok, n, b)
		} else {
			sv := f.get(s.Send, n, b)
			if g := f.chanInvTerm(s.Chan, sv, n, b); !g.IsTrue() {
				x.oblige("chaninv", nil, b.pc, g, s.Pos, "value sent satisfies the channel's content invariant")
			}
			f.chanSendOp(cases[k].ch, sv, b, s.Pos, false)
		}
		_ = recvVals
		outs = append(outs, b)
		results = append(results, append([]*Term{recvOk}, recvVals...))
	}
	if !i.Blocking {
		b := base.clone()
		b.pc = And(base.pc, Eq(idx, Num(-1)))
		outs = append(outs, b)
		results = append(results, []*Term{TFalse})
	}
	merged := mergeStates(outs)
	// result tuple
	res := []*Term{idx}
	// recvOk
	var rok *Term = TFalse
	for k := len(results) - 1; k >= 0; k-- {
		rok = Ite(outs[k].pc, results[k][0], rok)
	}
	res = append(res, rok)
	ti := 2
	for k, s := range i.States {
		if s.Dir != types.RecvOnly {
			continue
		}
		et := tt.At(ti).Type()
		ti++
		comps := Flatten(et)
		for j := range comps {
			res = append(res, results[k][1+j])
		}
	}
	f.setReg(i, n.Ctx, Value{T: i.Type(), C: res})
	*st = *merged
	return st
}

var _ = ssa.NaiveForm

// chanField identifies the struct field a channel operand was loaded from.
// chanSiteName: the name by which contracts address sends and receives on this channel: the field it is
// loaded from, or the local variable that holds it.
func chanSiteName(v ssa.Value) string {
	if fld := chanField(v); fld != "" {
		return lastField(fld)
	}
	if u, ok := v.(*ssa.UnOp); ok && u.Op == token.MUL {
		if a, ok := u.X.(*ssa.Alloc); ok {
			return a.Comment
		}
	}
	return ""
}

func chanField(v ssa.Value) string {
	switch u := v.(type) {
	case *ssa.UnOp:
		if u.Op == token.MUL {
			if fa, ok := u.X.(*ssa.FieldAddr); ok {
				st := deref(fa.X.Type())
				return regionBase(st) + "." + st.Underlying().(*types.Struct).Field(fa.Field).Name()
			}
		}
	case *ssa.Field:
		st := u.X.Type()
		return regionBase(st) + "." + st.Underlying().(*types.Struct).Field(u.Field).Name()
	case *ssa.ChangeType:
		return chanField(u.X)
	}
	return ""
}

// chanInvTerm evaluates the declared content invariant of a channel for value v.
func (f *frame) chanInvTerm(chv ssa.Value, v Value, n *node, st *State) *Term {
	fld := chanField(chv)
	var out []*Term
	// a channel parameter with a declared content invariant
	if f.c != nil && fld == "" {
		if u, ok := chv.(*ssa.UnOp); ok && u.Op == token.MUL {
			if a, ok := u.X.(*ssa.Alloc); ok {
				for _, ri := range f.c.RecvInv {
					if ri.Field == a.Comment {
						sc := f.x.newSpecCtx(f, n, st, f.x.entryState)
						sc.vars[ri.Var] = v
						out = append(out, sc.evalBool(ri.C.Expr))
					}
				}
			}
		}
	}
	if fld == "" {
		return And(out...)
	}
	for _, ci := range f.x.S.ChanInvs {
		if ci.Field != fld {
			continue
		}
		sc := f.x.newSpecCtx(f, n, st, f.x.entryState)
		sc.vars[ci.Var] = v
		out = append(out, sc.evalBool(ci.C.Expr))
	}
	return And(out...)
}

// isClosable: may another goroutine close this channel? Channels loaded from
// a struct field for which the module has no close site are never closed.
func (x *Exec) isClosable(v ssa.Value) bool {
	fld := chanField(v)
	if fld == "" {
		// a channel parameter with a declared content invariant is one of the never-closed holders
		if u, ok := v.(*ssa.UnOp); ok && x.C != nil {
			if a, ok := u.X.(*ssa.Alloc); ok {
				for _, ri := range x.C.RecvInv {
					if ri.Field == a.Comment {
						return false
					}
				}
			}
		}
		return true
	}
	if x.C != nil {
		for _, s := range x.C.Stable {
			if strings.HasSuffix(fld, "."+s) {
				return false
			}
		}
	}
	if x.closeSites == nil {
		x.closeSites = map[string]bool{}
		for _, fn := range x.P.Funcs {
			for _, b := range fn.Blocks {
				for _, in := range b.Instrs {
					c, ok := in.(ssa.CallInstruction)
					if !ok {
						continue
					}
					if bi, ok := c.Common().Value.(*ssa.Builtin); ok && bi.Name() == "close" {
						if f := chanField(c.Common().Args[0]); f != "" {
							x.closeSites[f] = true
						} else {
							x.closeSites["?"] = true
						}
					}
				}
			}
		}
	}
	return x.closeSites[fld]
}

// onClosed: rely facts declared for a receive that found the channel closed.
func (f *frame) onClosed(chv ssa.Value, ok *Term, n *node, st *State) {
	c := f.x.C
	if c == nil || (len(c.OnClosed) == 0 && len(c.OnOpen) == 0) {
		return
	}
	fld := chanField(chv)
	if j := strings.LastIndex(fld, "."); j >= 0 {
		fld = fld[j+1:]
	}
	for _, cl := range c.OnClosed[fld] {
		sc := f.x.newSpecCtx(f, n, st, f.x.entryState)
		f.x.assume(And(st.pc, Not(ok)), sc.evalBool(cl.Expr), "rely: "+cl.Text)
		f.x.note("rely: when " + fld + " is found closed: " + cl.Text)
	}
	for _, cl := range c.OnOpen[fld] {
		sc := f.x.newSpecCtx(f, n, st, f.x.entryState)
		f.x.assume(And(st.pc, ok), sc.evalBool(cl.Expr), "rely: "+cl.Text)
		f.x.note("rely: when a value was received from " + fld + ": " + cl.Text)
	}
}
