package main

// Racing three SMT solvers on one query. First definite answer wins.

import (
	"runtime"
	"bytes"
	"context"
	"os"
	"os/exec"
	"path/filepath"
	"strconv"
	"strings"
	"sync"
	"time"
)

type SolveResult struct {
	Answer  string // unsat | sat | unknown | timeout | error
	Solver  string
	Secs    float64
	Model   string // get-value output when sat
	Raw     string
	Answers map[string]string // per solver, as far as known
}

var procSlots = make(chan struct{}, max(4, runtime.NumCPU()))

type solverSpec struct {
	name  string
	args  func(file string, secs int) []string
	delay int // seconds to wait before starting (second-line configurations)
	tactic string // replaces (check-sat) by (check-sat-using <tactic>) in a copy of the file
}

var solvers = []solverSpec{
	{"z3-new", func(f string, s int) []string { return []string{"z3-new", "-T:" + itoa(s), f} }, 0, ""},
	{"z3", func(f string, s int) []string { return []string{"z3", "-T:" + itoa(s), f} }, 0, ""},
	// without array extensionality: a weaker theory, so only its refutations (unsat) count
	{"z3-new-noext", func(f string, s int) []string {
		return []string{"z3-new", "-T:" + itoa(s), "smt.array.extensional=false", f}
	}, 0, ""},
	// preprocessing (value propagation, equation solving) before the SMT core: steadier on the large merged-state queries
	{"z3-new-pre-noext", func(f string, s int) []string {
		return []string{"z3-new", "-T:" + itoa(s), "smt.array.extensional=false", f}
	}, 0, "(then simplify propagate-values solve-eqs smt)"},
	// second line, started when nothing answered within two seconds: other search orders of the same solver
	{"z3-new-pre-s3-noext", func(f string, s int) []string {
		return []string{"z3-new", "-T:" + itoa(s), "smt.array.extensional=false", "smt.random_seed=3", f}
	}, 2, "(then simplify propagate-values solve-eqs smt)"},
	{"z3-new-pre-s5-noext", func(f string, s int) []string {
		return []string{"z3-new", "-T:" + itoa(s), "smt.array.extensional=false", "smt.random_seed=5", f}
	}, 2, "(then simplify propagate-values solve-eqs smt)"},
	{"z3-new-lp2-noext", func(f string, s int) []string {
		return []string{"z3-new", "-T:" + itoa(s), "smt.array.extensional=false", "smt.arith.solver=2", f}
	}, 2, ""},
	{"z3-new-s13", func(f string, s int) []string {
		return []string{"z3-new", "-T:" + itoa(s), "smt.random_seed=13", f}
	}, 2, ""},
	{"cvc5", func(f string, s int) []string {
		return []string{"cvc5", "--tlimit=" + itoa(s*1000), "--incremental", f}
	}, 0, ""},
}

func itoa(i int) string { return strconv.Itoa(i) }

// Solve runs the solvers concurrently on the SMT text. When all is true it
// waits for every solver (cross-check mode) instead of stopping at the first
// definite answer.
func Solve(dir, name, smt string, secs int, all bool) SolveResult {
	file := filepath.Join(dir, name+".smt2")
	os.MkdirAll(filepath.Dir(file), 0o755)
	if err := os.WriteFile(file, []byte(smt), 0o644); err != nil {
		return SolveResult{Answer: "error", Raw: err.Error()}
	}
	tacFiles := map[string]string{}
	for _, sp := range solvers {
		if sp.tactic != "" && tacFiles[sp.tactic] == "" {
			tf := filepath.Join(dir, name+".pre.smt2")
			os.WriteFile(tf, []byte(strings.Replace(smt, "(check-sat)", "(check-sat-using "+sp.tactic+")", 1)), 0o644)
			tacFiles[sp.tactic] = tf
		}
	}
	ctx, cancel := context.WithCancel(context.Background())
	defer cancel()
	type one struct {
		solver, answer, model, raw string
		secs                        float64
	}
	ch := make(chan one, len(solvers))
	var wg sync.WaitGroup
	for _, sp := range solvers {
		sp := sp
		wg.Add(1)
		go func() {
			defer wg.Done()
			if sp.delay > 0 {
				if sp.delay >= secs {
					return
				}
				select {
				case <-ctx.Done():
					return
				case <-time.After(time.Duration(sp.delay) * time.Second):
				}
			}
			// one solver process per core at a time: timings then do not depend on how many obligations are in flight
			select {
			case procSlots <- struct{}{}:
			case <-ctx.Done():
				return
			}
			defer func() { <-procSlots }()
			t0 := time.Now()
			sf := file
			if sp.tactic != "" {
				sf = tacFiles[sp.tactic]
			}
			a := sp.args(sf, secs-sp.delay)
			cctx, ccancel := context.WithTimeout(ctx, time.Duration(secs+5)*time.Second)
			defer ccancel()
			cmd := exec.CommandContext(cctx, a[0], a[1:]...)
			var out bytes.Buffer
			cmd.Stdout = &out
			cmd.Stderr = &out
			cmd.Run()
			s := out.String()
			// drop solver warnings in front of the answer
			{
				var keep []string
				for _, ln := range strings.Split(s, "\n") {
					if strings.HasPrefix(ln, "WARNING") {
						continue
					}
					keep = append(keep, ln)
				}
				s = strings.Join(keep, "\n")
			}
			first := strings.TrimSpace(s)
			if i := strings.IndexByte(first, '\n'); i >= 0 {
				first = first[:i]
			}
			first = strings.TrimSpace(first)
			ans := "unknown"
			model := ""
			switch {
			case first == "unsat":
				ans = "unsat"
			case first == "sat" && strings.HasSuffix(sp.name, "-noext"):
				ans = "unknown"
			case first == "sat":
				ans = "sat"
				if i := strings.Index(s, "\n"); i >= 0 {
					model = strings.TrimSpace(s[i+1:])
				}
			case first == "timeout" || strings.Contains(first, "timeout") || strings.Contains(first, "interrupted"):
				ans = "timeout"
			case strings.Contains(s, "(error"):
				ans = "error"
			}
			if cctx.Err() != nil && ans == "unknown" {
				ans = "timeout"
			}
			ch <- one{sp.name, ans, model, s, time.Since(t0).Seconds()}
		}()
	}
	go func() { wg.Wait(); close(ch) }()
	res := SolveResult{Answer: "unknown", Answers: map[string]string{}}
	var raws []string
	for o := range ch {
		res.Answers[o.solver] = o.answer
		if o.answer == "error" {
			raws = append(raws, o.solver+": "+firstLines(o.raw, 3))
		}
		if (o.answer == "unsat" || o.answer == "sat") && res.Solver == "" {
			res.Answer, res.Solver, res.Secs, res.Model, res.Raw = o.answer, o.solver, o.secs, o.model, o.raw
			if !all {
				cancel()
				break
			}
			// cross-check mode: the others get ten more seconds to agree or disagree
			go func() {
				select {
				case <-ctx.Done():
				case <-time.After(10 * time.Second):
					cancel()
				}
			}()
		}
	}
	if res.Solver == "" {
		// no definite answer
		allTimeout := true
		for _, a := range res.Answers {
			if a != "timeout" {
				allTimeout = false
			}
		}
		if allTimeout {
			res.Answer = "timeout"
		}
		res.Raw = strings.Join(raws, "\n")
		if len(raws) == len(solvers) {
			res.Answer = "error"
		}
	}
	if all {
		// disagreement check
		def := ""
		for _, a := range res.Answers {
			if a == "sat" || a == "unsat" {
				if def != "" && def != a {
					res.Answer = "error"
					res.Raw = "solver disagreement"
				}
				def = a
			}
		}
	}
	return res
}

func firstLines(s string, n int) string {
	ls := strings.Split(strings.TrimSpace(s), "\n")
	if len(ls) > n {
		ls = ls[:n]
	}
	return strings.Join(ls, " / ")
}
