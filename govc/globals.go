package main

// Facts about package-level variables, derived mechanically from their
// initialisers in the source (go/ast): error sentinels made by errors.New or
// fmt.Errorf with %w, and slice literals of identifiers / constants.
// Package-level variables are assumed immutable after initialisation; a scan
// obligation (no store to a global outside init) backs this for the two
// packages.

import (
	"fmt"
	"go/ast"
	"go/constant"
	"go/token"
	"go/types"
	"strconv"
	"strings"

	"golang.org/x/tools/go/ssa"
)

type globalInit struct {
	Kind   string   // new, wrap, errslice, bytes, appendslices
	Wraps  []string // qualified global names wrapped with %w
	Elems  []string // qualified names (errslice)
	Bytes  []int64
	Parts  []string // appendslices: concatenation of these global slices
}

var globalInits map[string]*globalInit

// external error sentinels assumed to be distinct non-nil values matching only themselves
var externalSentinels = map[string]bool{
	"io.EOF": true, "io.ErrUnexpectedEOF": true, "io.ErrClosedPipe": true, "net.ErrClosed": true,
	"bufio.ErrBufferFull": true, "context.Canceled": true, "os.ErrNotExist": true, "context.DeadlineExceeded": true,
}

func scanGlobalInits(P *Program) {
	globalInits = map[string]*globalInit{}
	for _, pp := range P.PPkgs {
		if !strings.HasPrefix(pp.PkgPath, modPath) {
			continue
		}
		pkg := pp.Types.Name()
		qual := func(e ast.Expr) string {
			switch v := e.(type) {
			case *ast.Ident:
				return pkg + "." + v.Name
			case *ast.SelectorExpr:
				if id, ok := v.X.(*ast.Ident); ok {
					return id.Name + "." + v.Sel.Name
				}
			}
			return ""
		}
		for _, file := range pp.Syntax {
			for _, d := range file.Decls {
				gd, ok := d.(*ast.GenDecl)
				if !ok || gd.Tok != token.VAR {
					continue
				}
				for _, sp := range gd.Specs {
					vs := sp.(*ast.ValueSpec)
					if len(vs.Values) != len(vs.Names) {
						continue
					}
					for i, nm := range vs.Names {
						name := pkg + "." + nm.Name
						switch v := vs.Values[i].(type) {
						case *ast.CallExpr:
							fn := qual(v.Fun)
							if id, ok := v.Fun.(*ast.Ident); ok && id.Name == "append" {
								// append(append(make([]error, 0, n), a...), b...): the concatenation of global slices
								var parts []string
								okAll := true
								var walk func(c *ast.CallExpr)
								walk = func(c *ast.CallExpr) {
									if len(c.Args) != 2 || !c.Ellipsis.IsValid() {
										okAll = false
										return
									}
									switch first := c.Args[0].(type) {
									case *ast.CallExpr:
										fid, isId := first.Fun.(*ast.Ident)
										if isId && fid.Name == "append" {
											walk(first)
										} else if !(isId && fid.Name == "make") {
											okAll = false
										}
									default:
										okAll = false
									}
									parts = append(parts, qual(c.Args[1]))
								}
								walk(v)
								if okAll {
									globalInits[name] = &globalInit{Kind: "appendslices", Parts: parts}
								}
								continue
							}
							switch fn {
							case "errors.New":
								globalInits[name] = &globalInit{Kind: "new"}
							case "fmt.Errorf":
								gi := &globalInit{Kind: "wrap"}
								if lit, ok := v.Args[0].(*ast.BasicLit); ok {
									format, _ := strconv.Unquote(lit.Value)
									for k, verb := range formatVerbs(format) {
										if verb == 'w' && k+1 < len(v.Args) {
											gi.Wraps = append(gi.Wraps, qual(v.Args[k+1]))
										}
									}
								}
								globalInits[name] = gi
							}
						case *ast.CompositeLit:
							at, ok := v.Type.(*ast.ArrayType)
							if !ok || at.Len != nil {
								continue
							}
							if id, ok := at.Elt.(*ast.Ident); ok && id.Name == "error" {
								gi := &globalInit{Kind: "errslice"}
								for _, el := range v.Elts {
									gi.Elems = append(gi.Elems, qual(el))
								}
								globalInits[name] = gi
							}
							if id, ok := at.Elt.(*ast.Ident); ok && id.Name == "byte" {
								gi := &globalInit{Kind: "bytes"}
								okAll := true
								for _, el := range v.Elts {
									tv, has := pp.TypesInfo.Types[el]
									if !has || tv.Value == nil {
										okAll = false
										break
									}
									n, _ := constant.Int64Val(tv.Value)
									gi.Bytes = append(gi.Bytes, n)
								}
								if okAll {
									globalInits[name] = gi
								}
							}
						}
					}
				}
			}
		}
	}
}

// formatVerbs lists the verb letters of a format string in argument order.
func formatVerbs(format string) []byte {
	var vs []byte
	for i := 0; i < len(format); i++ {
		if format[i] != '%' {
			continue
		}
		i++
		for i < len(format) && strings.IndexByte("+-# 0123456789.", format[i]) >= 0 {
			i++
		}
		if i < len(format) {
			if format[i] == '%' {
				continue
			}
			vs = append(vs, format[i])
		}
	}
	return vs
}

func globalTerm(qname, suffix string, s *Sort) *Term {
	return Var("global."+qname+suffix, s)
}

// isAxiom: forall t. Is(h, t) <=> t = h or Is(w_i, t)
func isAxiom(h *Term, wraps []*Term) *Term {
	t := BVar("t?is", SInt)
	rhs := []*Term{Eq(t, h)}
	for _, w := range wraps {
		rhs = append(rhs, And(Ne(w, Num(0)), App("Is", SBool, w, t)))
	}
	return Forall([]*Term{t}, Eq(App("Is", SBool, h, t), Or(rhs...)), App("Is", SBool, h, t))
}

// sentinelFacts adds what is known about an error-typed global on first use.
func (x *Exec) sentinelFacts(qname string) {
	if x.sentinels == nil {
		x.sentinels = map[string]bool{}
	}
	if x.sentinels[qname] {
		return
	}
	gi := globalInits[qname]
	if gi == nil && !externalSentinels[qname] {
		return
	}
	if gi != nil && gi.Kind != "new" && gi.Kind != "wrap" {
		return
	}
	h := globalTerm(qname, "", SInt)
	x.assumeTrue(Gt(h, Num(0)))
	x.assumeTrue(Lt(App("dyntype", SInt, h), Num(0)))
	x.assumeTrue(Eq(App("pkgerr", SBool, h), Bool(gi != nil)))
	x.assumeTrue(Not(App("perr", SBool, h)))
	for other := range x.sentinels {
		x.assumeTrue(Ne(h, globalTerm(other, "", SInt)))
	}
	x.sentinels[qname] = true
	var wraps []*Term
	if gi != nil {
		for _, w := range gi.Wraps {
			x.sentinelFacts(w)
			wraps = append(wraps, globalTerm(w, "", SInt))
		}
	}
	if externalSentinels[qname] {
		x.note("assumed: " + qname + " is a distinct sentinel matching only itself")
	}
	x.assumeNeed("Is", isAxiom(h, wraps))
	x.assumeNeed("AsT", asAxiom(h, wraps))
}

// globalSliceFacts: contents of slice-literal globals in the entry heap.
func (x *Exec) globalSliceFacts(qname string, v Value, st *State) {
	gi := globalInits[qname]
	if gi == nil {
		return
	}
	switch gi.Kind {
	case "errslice":
		n := int64(len(gi.Elems))
		x.assumeTrue(And(Eq(v.C[2], Num(n)), Eq(v.C[3], Num(n)), Gt(v.C[0], Num(0))))
		et := v.T.Underlying().(*types.Slice).Elem()
		arr := elemArr(x.entryStateOr(st), et, Flatten(et)[0], v.C[0])
		for i, e := range gi.Elems {
			x.sentinelFacts(e)
			x.assumeTrue(Eq(Select(arr, Add(v.C[1], Num(int64(i)))), globalTerm(e, "", SInt)))
		}
	case "appendslices":
		var elems []string
		for _, p := range gi.Parts {
			pi := globalInits[p]
			if pi == nil || pi.Kind != "errslice" {
				return
			}
			elems = append(elems, pi.Elems...)
		}
		n := int64(len(elems))
		x.assumeTrue(And(Eq(v.C[2], Num(n)), Gt(v.C[0], Num(0))))
		et := v.T.Underlying().(*types.Slice).Elem()
		arr := elemArr(x.entryStateOr(st), et, Flatten(et)[0], v.C[0])
		for i, e := range elems {
			x.sentinelFacts(e)
			x.assumeTrue(Eq(Select(arr, Add(v.C[1], Num(int64(i)))), globalTerm(e, "", SInt)))
		}
	case "bytes":
		n := int64(len(gi.Bytes))
		x.assumeTrue(And(Eq(v.C[2], Num(n)), Eq(v.C[3], Num(n)), Gt(v.C[0], Num(0))))
		et := v.T.Underlying().(*types.Slice).Elem()
		arr := elemArr(x.entryStateOr(st), et, Flatten(et)[0], v.C[0])
		for i, b := range gi.Bytes {
			x.assumeTrue(Eq(Select(arr, Add(v.C[1], Num(int64(i)))), Num(b)))
		}
	}
}

func (x *Exec) entryStateOr(st *State) *State {
	if x.entryState != nil {
		return x.entryState
	}
	return st
}

func qualGlobal(g *ssa.Global) string {
	return g.Pkg.Pkg.Name() + "." + g.Name()
}

var _ = fmt.Sprintf
