package main

// Contract files: Gobra-style `//@` lines in comment-only Go files inside the
// repository (guarded by the verif build tag) and plain lines in
// /verif/contracts/*.spec for dependencies, ghost state and spec functions.

import (
	"fmt"
	"go/ast"
	"go/parser"
	"go/token"
	"os"
	"path/filepath"
	"regexp"
	"strconv"
	"strings"
)

type Clause struct {
	Kind string // requires ensures modifies invariant assert assume
	Slow  bool   // discharged in the thorough tier only (tag slow)
	Label string // optional stable name (tag id=...)
	By    []string // proof hint (tag by=<id>): the asserted facts to try first as the only quantified assumptions
	Reveal []string // recursive spec functions unfolded for this clause only (tag reveal=f)
	Tags []string
	Text string
	Expr ast.Expr
	Src  string // file:line
}

type LoopLet struct {
	Name string
	C    *Clause
}

type LoopSpec struct {
	Lets       []LoopLet
	Decreases  []*Clause // variants: non-negative at the head, smaller at every back edge (termination of the loop)
	Unroll     int
	Invariants []*Clause
	Modifies   []*Clause // extra havoc inside the loop
}

type Contract struct {
	Key      string
	Params   []string // optional parameter names (externals)
	Results  []string
	Requires []*Clause
	Ensures  []*Clause
	Modifies []*Clause
	Loops    map[int]*LoopSpec
	CallAsserts map[string][]*Clause // "callee#n" -> asserts checked before that call
	CallInterf  map[string][]*Clause // "callee#n" -> locations havocked after that call (interference of other goroutines)
	OnOpen   map[string][]*Clause // rely: facts that hold once a receive on this channel field yielded a value
	OnClosed map[string][]*Clause // rely: facts that hold once a receive found this channel field closed
	Stable   []string   // channel fields nobody else closes while this function runs (rely, justified at the contract)
	RecvInv  []*ChanInv // content invariants of channel parameters (recvinv p(v): expr)
	Reveal   []string // recursive spec functions whose definition the proof may unfold
	Trusted  bool // external / assumed
	Unverified bool // in-package contract whose body is not (yet) verified
	Pure     bool
	Inline   bool
	Opaque   bool   // external callee without effect on tracked state
	Role     string // reader, etc.
	Props    map[string]bool
	Src      string
	Panics   []*Clause // conditions under which a panic is the specified behaviour
}

type GhostDecl struct {
	NonNeg bool
	Name  string
	NArgs int
	Sort  *Sort // sort of the region
	Res   *Sort
}

type SpecFunc struct {
	Name   string
	Params []string
	PSorts []string // int bool
	Res    string
	Body   *Clause // nil for uninterpreted
	Rec    bool
	Opaque bool // not recursive, but defined only where the contract reveals it
}

type Lemma struct {
	Name   string
	Tags   []string
	Script string // raw SMT-LIB text (self-contained obligation) or
	Goal   *Clause
	Assumes []*Clause
	Src    string
}

type Pred struct {
	Name   string
	Params []string
	C      *Clause
}

type ChanInv struct {
	Field string // pkg.Type.field
	Var   string
	C     *Clause
}

type RawAxiom struct {
	Need string
	Text string
	Src  string
}

type Specs struct {
	RawAxioms []*RawAxiom
	ChanInvs  []*ChanInv
	MapInvs   []*ChanInv
	Preds     map[string]*Pred
	Contracts map[string]*Contract
	Ghosts    map[string]*GhostDecl
	Funcs     map[string]*SpecFunc
	FuncOrder []string
	Axioms    []*Clause
	Lemmas    []*Lemma
	Globals   []*Clause // facts about package-level variables (immutable after init)
}

func NewSpecs() *Specs {
	return &Specs{Contracts: map[string]*Contract{}, Ghosts: map[string]*GhostDecl{}, Funcs: map[string]*SpecFunc{}, Preds: map[string]*Pred{}}
}

var tokenFset = token.NewFileSet()

var tagRe = regexp.MustCompile(`^(\w+)(?:\[([^\]]*)\])?\s*(.*)$`)

// LoadFile parses one contract file. goFile: only lines starting with //@ count.
func (S *Specs) LoadFile(path string, goFile bool) error {
	data, err := os.ReadFile(path)
	if err != nil {
		return err
	}
	var cur *Contract
	var last *Clause
	var curLemma *Lemma
	lines := strings.Split(string(data), "\n")
	for ln, raw := range lines {
		line := strings.TrimSpace(raw)
		if goFile {
			if !strings.HasPrefix(line, "//@") {
				continue
			}
			line = strings.TrimSpace(line[3:])
		} else {
			if strings.HasPrefix(line, "//@") {
				line = strings.TrimSpace(line[3:])
			}
		}
		if line == "" || strings.HasPrefix(line, "#") || strings.HasPrefix(line, "//") {
			continue
		}
		src := fmt.Sprintf("%s:%d", filepath.Base(path), ln+1)
		if strings.HasPrefix(line, "|") {
			if last == nil {
				return fmt.Errorf("%s: continuation without clause", src)
			}
			last.Text += " " + strings.TrimSpace(line[1:])
			continue
		}
		m := tagRe.FindStringSubmatch(line)
		if m == nil {
			return fmt.Errorf("%s: cannot parse %q", src, line)
		}
		kw, tagstr, rest := m[1], m[2], strings.TrimSpace(m[3])
		var tags []string
		for _, t := range strings.Split(tagstr, ",") {
			if t = strings.TrimSpace(t); t != "" {
				tags = append(tags, t)
			}
		}
		label := ""
		slow := false
		var clauseReveal, clauseBy []string
		{
			var keep []string
			for _, t := range tags {
				if strings.HasPrefix(t, "id=") {
					label = t[3:]
				} else if t == "slow" {
					slow = true
				} else if strings.HasPrefix(t, "reveal=") {
					clauseReveal = append(clauseReveal, t[7:])
				} else if strings.HasPrefix(t, "by=") {
					clauseBy = append(clauseBy, t[3:])
				} else {
					keep = append(keep, t)
				}
			}
			tags = keep
		}
		mkClause := func(kind, text string) *Clause {
			c := &Clause{Kind: kind, Tags: tags, Text: text, Src: src, Label: label, Reveal: clauseReveal, Slow: slow, By: clauseBy}
			last = c
			return c
		}
		switch kw {
		case "func", "method":
			key, params, results, err := parseHeader(rest)
			if err != nil {
				return fmt.Errorf("%s: %v", src, err)
			}
			if _, dup := S.Contracts[key]; dup {
				return fmt.Errorf("%s: duplicate contract for %s", src, key)
			}
			cur = &Contract{Key: key, Params: params, Results: results, Loops: map[int]*LoopSpec{}, CallAsserts: map[string][]*Clause{}, CallInterf: map[string][]*Clause{}, Props: map[string]bool{}, Src: src, Trusted: !goFile}
			S.Contracts[key] = cur
			curLemma = nil
			last = nil
		case "requires":
			if curLemma != nil {
				curLemma.Assumes = append(curLemma.Assumes, mkClause("requires", rest))
				continue
			}
			if cur == nil {
				return fmt.Errorf("%s: clause outside func", src)
			}
			cur.Requires = append(cur.Requires, mkClause("requires", rest))
		case "ensures":
			if curLemma != nil {
				curLemma.Goal = mkClause("ensures", rest)
				continue
			}
			if cur == nil {
				return fmt.Errorf("%s: clause outside func", src)
			}
			cur.Ensures = append(cur.Ensures, mkClause("ensures", rest))
			for _, t := range tags {
				cur.Props[t] = true
			}
		case "panics":
			cur.Panics = append(cur.Panics, mkClause("panics", rest))
		case "modifies":
			for _, part := range splitTop(rest, ',') {
				cur.Modifies = append(cur.Modifies, mkClause("modifies", strings.TrimSpace(part)))
			}
		case "props":
			for _, t := range strings.Fields(strings.ReplaceAll(rest, ",", " ")) {
				cur.Props[t] = true
			}
		case "onopen":
			// onopen field: expr   (rely: holds whenever a receive on this field yielded a value)
			i := strings.Index(rest, ":")
			if i < 0 {
				return fmt.Errorf("%s: onopen needs ':'", src)
			}
			if cur.OnOpen == nil {
				cur.OnOpen = map[string][]*Clause{}
			}
			fld := strings.TrimSpace(rest[:i])
			cur.OnOpen[fld] = append(cur.OnOpen[fld], mkClause("onopen", strings.TrimSpace(rest[i+1:])))
		case "onclosed":
			// onclosed field: expr
			i := strings.Index(rest, ":")
			if i < 0 {
				return fmt.Errorf("%s: onclosed needs ':'", src)
			}
			if cur.OnClosed == nil {
				cur.OnClosed = map[string][]*Clause{}
			}
			fld := strings.TrimSpace(rest[:i])
			cur.OnClosed[fld] = append(cur.OnClosed[fld], mkClause("onclosed", strings.TrimSpace(rest[i+1:])))
		case "stable":
			for _, t := range strings.Fields(strings.ReplaceAll(rest, ",", " ")) {
				cur.Stable = append(cur.Stable, t)
			}
		case "recvinv":
			r := regexp.MustCompile(`^(\w+)\((\w+)\)\s*:\s*(.*)$`).FindStringSubmatch(rest)
			if r == nil {
				return fmt.Errorf("%s: cannot parse recvinv", src)
			}
			cur.RecvInv = append(cur.RecvInv, &ChanInv{Field: r[1], Var: r[2], C: mkClause("recvinv", r[3])})
		case "reveal":
			for _, t := range strings.Fields(strings.ReplaceAll(rest, ",", " ")) {
				cur.Reveal = append(cur.Reveal, t)
			}
		case "unverified":
			cur.Unverified = true
		case "pure":
			cur.Pure = true
		case "inline":
			cur.Inline = true
		case "opaque":
			cur.Opaque = true
		case "role":
			cur.Role = rest
		case "loop":
			// loop N: unroll K | invariant E | modifies E
			i := strings.Index(rest, ":")
			if i < 0 {
				return fmt.Errorf("%s: loop needs ':'", src)
			}
			n, err := strconv.Atoi(strings.TrimSpace(rest[:i]))
			if err != nil {
				return fmt.Errorf("%s: loop ordinal: %v", src, err)
			}
			body := strings.TrimSpace(rest[i+1:])
			ls := cur.Loops[n]
			if ls == nil {
				ls = &LoopSpec{}
				cur.Loops[n] = ls
			}
			switch {
			case strings.HasPrefix(body, "unroll"):
				k, err := strconv.Atoi(strings.TrimSpace(body[6:]))
				if err != nil {
					return fmt.Errorf("%s: unroll count: %v", src, err)
				}
				ls.Unroll = k
			case strings.HasPrefix(body, "invariant"):
				ls.Invariants = append(ls.Invariants, mkClause("invariant", strings.TrimSpace(body[9:])))
			case strings.HasPrefix(body, "let "):
				eq := strings.Index(body, "=")
				if eq < 0 {
					return fmt.Errorf("%s: let needs '='", src)
				}
				ls.Lets = append(ls.Lets, LoopLet{strings.TrimSpace(body[4:eq]), mkClause("let", strings.TrimSpace(body[eq+1:]))})
			case strings.HasPrefix(body, "decreases"):
				ls.Decreases = append(ls.Decreases, mkClause("decreases", strings.TrimSpace(body[9:])))
			case strings.HasPrefix(body, "modifies"):
				for _, part := range splitTop(strings.TrimSpace(body[8:]), ',') {
					ls.Modifies = append(ls.Modifies, mkClause("modifies", strings.TrimSpace(part)))
				}
			default:
				return fmt.Errorf("%s: unknown loop clause %q", src, body)
			}
		case "at":
			// at call Callee#n: assert E
			if ri := regexp.MustCompile(`^call\s+(\S+)\s*:\s*interference\s+(.*)$`).FindStringSubmatch(rest); ri != nil {
				// at call Callee#n: interference loc, ...  (locations other goroutines may change while the call blocks)
				for _, part := range splitTop(ri[2], ',') {
					cur.CallInterf[ri[1]] = append(cur.CallInterf[ri[1]], mkClause("interference", strings.TrimSpace(part)))
				}
				for _, t := range tags {
					cur.Props[t] = true
				}
				continue
			}
			r := regexp.MustCompile(`^call\s+(\S+)\s*:\s*assert\s+(.*)$`).FindStringSubmatch(rest)
			if r == nil {
				// at recv field#n: assert E   (blocking receive on the channel loaded from that struct field)
				r = regexp.MustCompile(`^((?:recv|selrecv|send)\s+\S+)\s*:\s*assert\s+(.*)$`).FindStringSubmatch(rest)
				if r != nil {
					r[1] = strings.Join(strings.Fields(r[1]), " ")
				}
			}
			if r == nil {
				return fmt.Errorf("%s: cannot parse at-clause", src)
			}
			c := mkClause("assert", r[2])
			cur.CallAsserts[r[1]] = append(cur.CallAsserts[r[1]], c)
			for _, t := range tags {
				cur.Props[t] = true
			}
		case "ghost":
			// ghost name(a, b) int
			nonneg := false
			if strings.HasSuffix(rest, " nonneg") {
				nonneg = true
				rest = strings.TrimSpace(strings.TrimSuffix(rest, " nonneg"))
			}
			r := regexp.MustCompile(`^(\w+)\(([^)]*)\)\s*(\w+)$`).FindStringSubmatch(rest)
			if r == nil {
				return fmt.Errorf("%s: cannot parse ghost decl", src)
			}
			n := 0
			if strings.TrimSpace(r[2]) != "" {
				n = len(strings.Split(r[2], ","))
			}
			var res *Sort
			switch r[3] {
			case "int":
				res = SInt
			case "bool":
				res = SBool
			case "seq":
				res = sArrII
			default:
				return fmt.Errorf("%s: ghost result sort %q", src, r[3])
			}
			s := res
			for i := 0; i < n; i++ {
				s = SArr(s)
			}
			S.Ghosts[r[1]] = &GhostDecl{Name: r[1], NArgs: n, Sort: s, Res: res, NonNeg: nonneg}
			cur, last = nil, nil
		case "spec":
			// spec [rec] name(a int, b seq) int = expr     |  spec name(a int) bool   (uninterpreted)
			rec := false
			if strings.HasPrefix(rest, "rec ") {
				rec = true
				rest = strings.TrimSpace(rest[4:])
			}
			r := regexp.MustCompile(`^(\w+)\(([^)]*)\)\s*(\w+)\s*(?:=\s*(.*))?$`).FindStringSubmatch(rest)
			if r == nil && !strings.HasPrefix(rest, "opaque ") {
				return fmt.Errorf("%s: cannot parse spec func", src)
			}
			opaque := false
			if !rec && strings.HasPrefix(rest, "opaque ") {
				opaque = true
				rest = strings.TrimSpace(rest[7:])
				r = regexp.MustCompile(`^(\w+)\(([^)]*)\)\s*(\w+)\s*(?:=\s*(.*))?$`).FindStringSubmatch(rest)
				if r == nil {
					return fmt.Errorf("%s: cannot parse spec func", src)
				}
			}
			sf := &SpecFunc{Name: r[1], Res: r[3], Rec: rec, Opaque: opaque}
			for _, p := range strings.Split(r[2], ",") {
				f := strings.Fields(p)
				if len(f) == 0 {
					continue
				}
				if len(f) != 2 {
					return fmt.Errorf("%s: spec param %q", src, p)
				}
				sf.Params = append(sf.Params, f[0])
				sf.PSorts = append(sf.PSorts, f[1])
			}
			if r[4] != "" {
				sf.Body = mkClause("spec", r[4])
			}
			S.Funcs[sf.Name] = sf
			S.FuncOrder = append(S.FuncOrder, sf.Name)
			cur = nil
		case "rawaxiom":
			// rawaxiom <needed-symbol> <SMT-LIB assertion>
			i := strings.IndexAny(rest, " \t")
			if i < 0 {
				return fmt.Errorf("%s: rawaxiom needs a symbol and a term", src)
			}
			S.RawAxioms = append(S.RawAxioms, &RawAxiom{Need: rest[:i], Text: strings.TrimSpace(rest[i+1:]), Src: src})
			cur = nil
		case "pred":
			// pred name(a, b): expr   — a macro over Go-typed values, expanded at each use
			r := regexp.MustCompile(`^(\w+)\(([^)]*)\)\s*:\s*(.*)$`).FindStringSubmatch(rest)
			if r == nil {
				return fmt.Errorf("%s: cannot parse pred", src)
			}
			pd := &Pred{Name: r[1], C: mkClause("pred", r[3])}
			for _, p := range strings.Split(r[2], ",") {
				if p = strings.TrimSpace(p); p != "" {
					pd.Params = append(pd.Params, p)
				}
			}
			S.Preds[pd.Name] = pd
			cur = nil
		case "mapinv":
			// mapinv pkg.Type.field(v): expr  — content invariant of the values stored in a map field
			r := regexp.MustCompile(`^([\w.]+)\((\w+)\)\s*:\s*(.*)$`).FindStringSubmatch(rest)
			if r == nil {
				return fmt.Errorf("%s: cannot parse mapinv", src)
			}
			S.MapInvs = append(S.MapInvs, &ChanInv{Field: r[1], Var: r[2], C: mkClause("mapinv", r[3])})
			cur = nil
		case "chaninv":
			// chaninv mqtt.Client.writeSem(v): expr
			r := regexp.MustCompile(`^([\w.]+)\((\w+)\)\s*:\s*(.*)$`).FindStringSubmatch(rest)
			if r == nil {
				return fmt.Errorf("%s: cannot parse chaninv", src)
			}
			S.ChanInvs = append(S.ChanInvs, &ChanInv{Field: r[1], Var: r[2], C: mkClause("chaninv", r[3])})
			cur = nil
		case "axiom":
			S.Axioms = append(S.Axioms, mkClause("axiom", rest))
			cur = nil
		case "global":
			S.Globals = append(S.Globals, mkClause("global", rest))
			cur = nil
		case "lemma":
			curLemma = &Lemma{Name: strings.TrimSuffix(rest, ":"), Tags: tags, Src: src}
			S.Lemmas = append(S.Lemmas, curLemma)
			cur = nil
		case "smt":
			if curLemma == nil {
				return fmt.Errorf("%s: smt outside lemma", src)
			}
			curLemma.Script += rest + "\n"
		default:
			return fmt.Errorf("%s: unknown keyword %q", src, kw)
		}
	}
	return nil
}

// Finish parses all clause texts.
func (S *Specs) Finish() error {
	for n, sf := range S.Funcs {
		if sf.Body != nil && !sf.Rec && !sf.Opaque {
			definedFuncs["spec."+n] = true
		}
	}
	var all []*Clause
	for _, c := range S.Contracts {
		all = append(all, c.Requires...)
		all = append(all, c.Ensures...)
		all = append(all, c.Modifies...)
		all = append(all, c.Panics...)
		for _, ri := range c.RecvInv {
			all = append(all, ri.C)
		}
		for _, cs := range c.OnClosed {
			all = append(all, cs...)
		}
		for _, cs := range c.OnOpen {
			all = append(all, cs...)
		}
		for _, l := range c.Loops {
			for _, lt := range l.Lets {
				all = append(all, lt.C)
			}
			all = append(all, l.Decreases...)
			all = append(all, l.Invariants...)
			all = append(all, l.Modifies...)
		}
		for _, as := range c.CallAsserts {
			all = append(all, as...)
		}
		for _, as := range c.CallInterf {
			all = append(all, as...)
		}
	}
	for _, f := range S.Funcs {
		if f.Body != nil {
			all = append(all, f.Body)
		}
	}
	for _, ci := range S.ChanInvs {
		all = append(all, ci.C)
	}
	for _, pd := range S.Preds {
		all = append(all, pd.C)
	}
	for _, mi := range S.MapInvs {
		all = append(all, mi.C)
	}
	all = append(all, S.Axioms...)
	all = append(all, S.Globals...)
	for _, l := range S.Lemmas {
		if l.Goal != nil {
			all = append(all, l.Goal)
		}
		all = append(all, l.Assumes...)
	}
	for _, c := range all {
		txt := convImplies(c.Text)
		e, err := parser.ParseExpr(txt)
		if err != nil {
			return fmt.Errorf("%s: %v in %q", c.Src, err, txt)
		}
		c.Expr = e
	}
	return nil
}

// parseHeader: "mqtt.publishPacket -> r, err"  or  "(b *bufio.Reader) Peek(n int) (r []byte, err error)"
// or "net.Conn.Write(p []byte) (n int, err error)".
func parseHeader(s string) (key string, params, results []string, err error) {
	if i := strings.Index(s, "->"); i >= 0 {
		for _, r := range strings.Split(s[i+2:], ",") {
			results = append(results, strings.TrimSpace(r))
		}
		s = strings.TrimSpace(s[:i])
	}
	if strings.HasPrefix(s, "\"") {
		// quoted key form (instantiated generics): "key"(param, ...) -> results
		j := strings.Index(s[1:], "\"")
		if j < 0 {
			return "", nil, nil, fmt.Errorf("header %q: unterminated key", s)
		}
		key = s[1 : 1+j]
		rest := strings.TrimSpace(s[2+j:])
		rest = strings.TrimSuffix(strings.TrimPrefix(rest, "("), ")")
		for _, p := range strings.Split(rest, ",") {
			if p = strings.TrimSpace(p); p != "" {
				params = append(params, p)
			}
		}
		return key, params, results, nil
	}
	if !strings.Contains(s, " ") && !strings.HasSuffix(s, ")") {
		return s, nil, results, nil // key form
	}
	// signature form
	src := "package p\nfunc " + s
	recvKey := ""
	if !strings.HasPrefix(s, "(") {
		// pkg.Name(...) or pkg.Iface.Method(...)
		i := strings.Index(s, "(")
		recvKey = s[:i]
		src = "package p\nfunc f" + s[i:]
	}
	f, perr := parser.ParseFile(tokenFset, "", src, 0)
	if perr != nil {
		return "", nil, nil, fmt.Errorf("header %q: %v", s, perr)
	}
	fd := f.Decls[0].(*ast.FuncDecl)
	for _, fl := range fd.Type.Params.List {
		for _, n := range fl.Names {
			params = append(params, n.Name)
		}
	}
	if fd.Type.Results != nil {
		for _, fl := range fd.Type.Results.List {
			for _, n := range fl.Names {
				results = append(results, n.Name)
			}
		}
	}
	if recvKey != "" {
		return recvKey, params, results, nil
	}
	// receiver form
	rf := fd.Recv.List[0]
	rname := ""
	if len(rf.Names) > 0 {
		rname = rf.Names[0].Name
	}
	params = append([]string{rname}, params...)
	t := rf.Type
	star := false
	if st, ok := t.(*ast.StarExpr); ok {
		star = true
		t = st.X
	}
	var pkg, tn string
	switch x := t.(type) {
	case *ast.SelectorExpr:
		pkg = x.X.(*ast.Ident).Name
		tn = x.Sel.Name
	case *ast.Ident:
		tn = x.Name
	}
	if star {
		key = fmt.Sprintf("%s.(*%s).%s", pkg, tn, fd.Name.Name)
	} else {
		key = fmt.Sprintf("%s.%s.%s", pkg, tn, fd.Name.Name)
	}
	return key, params, results, nil
}

// splitTop splits at the separator outside brackets and string literals.
func splitTop(s string, sep byte) []string {
	var out []string
	depth := 0
	start := 0
	inStr := false
	for i := 0; i < len(s); i++ {
		c := s[i]
		if inStr {
			if c == '\\' {
				i++
			} else if c == '"' {
				inStr = false
			}
			continue
		}
		switch c {
		case '"':
			inStr = true
		case '(', '[', '{':
			depth++
		case ')', ']', '}':
			depth--
		default:
			if c == sep && depth == 0 {
				out = append(out, s[start:i])
				start = i + 1
			}
		}
	}
	out = append(out, s[start:])
	return out
}

// findTop finds the first (or last) top-level occurrence of tok.
func findTop(s, tok string, lastOcc bool) int {
	depth := 0
	inStr := false
	found := -1
	for i := 0; i < len(s); i++ {
		c := s[i]
		if inStr {
			if c == '\\' {
				i++
			} else if c == '"' {
				inStr = false
			}
			continue
		}
		switch c {
		case '"':
			inStr = true
		case '(', '[', '{':
			depth++
		case ')', ']', '}':
			depth--
		}
		if depth == 0 && strings.HasPrefix(s[i:], tok) {
			// do not confuse ==> with <==>
			if tok == "==>" && i > 0 && s[i-1] == '<' {
				continue
			}
			if !lastOcc {
				return i
			}
			found = i
		}
	}
	return found
}

// convImplies rewrites `a ==> b` and `a <==> b` into implies(a, b), iff(a, b).
func convImplies(s string) string {
	s = strings.TrimSpace(s)
	if i := findTop(s, "<==>", false); i >= 0 {
		return "iff(" + convImplies(s[:i]) + ", " + convImplies(s[i+4:]) + ")"
	}
	if i := findTop(s, "==>", false); i >= 0 {
		return "implies(" + convImplies(s[:i]) + ", " + convImplies(s[i+3:]) + ")"
	}
	if !strings.Contains(s, "==>") {
		return s
	}
	// descend into bracket groups
	var out strings.Builder
	depth := 0
	start := -1
	inStr := false
	for i := 0; i < len(s); i++ {
		c := s[i]
		if inStr {
			if depth == 0 {
				out.WriteByte(c)
			}
			if c == '\\' {
				i++
				if depth == 0 {
					out.WriteByte(s[i])
				}
			} else if c == '"' {
				inStr = false
			}
			continue
		}
		switch c {
		case '"':
			inStr = true
			if depth == 0 {
				out.WriteByte(c)
			}
		case '(', '[':
			if depth == 0 {
				out.WriteByte(c)
				start = i + 1
			}
			depth++
		case ')', ']':
			depth--
			if depth == 0 {
				inner := s[start:i]
				parts := splitTop(inner, ',')
				for k, p := range parts {
					if k > 0 {
						out.WriteString(", ")
					}
					out.WriteString(convImplies(p))
				}
				out.WriteByte(c)
			}
		default:
			if depth == 0 {
				out.WriteByte(c)
			}
		}
	}
	return out.String()
}
