package main

// Terms: a hash-consed DAG of SMT-LIB expressions over Int, Bool and nested
// integer-indexed arrays, with a light local simplifier (constant folding,
// ite collapsing, select-over-store) and an SMT-LIB 2 printer that shares
// closed sub-terms through define-fun.

import (
	"os"
	"fmt"
	"math/big"
	"sort"
	"strings"
)

type Sort struct {
	Kind int // 0 Int, 1 Bool, 2 Array Int Elem
	Elem *Sort
	str  string
}

var (
	SInt  = &Sort{Kind: 0, str: "Int"}
	SBool = &Sort{Kind: 1, str: "Bool"}
	arrs  = map[*Sort]*Sort{}
)

func SArr(elem *Sort) *Sort {
	if s, ok := arrs[elem]; ok {
		return s
	}
	s := &Sort{Kind: 2, Elem: elem, str: "(Array Int " + elem.str + ")"}
	arrs[elem] = s
	return s
}

func (s *Sort) String() string { return s.str }

type Term struct {
	Op    string // int, var, true, false, app, forall, exists, or an SMT operator
	Name  string // var / app name
	Int   *big.Int
	Args  []*Term
	Bound []*Term // quantifier-bound variables (Op var)
	Pat   []*Term // optional patterns for quantifiers
	PatAlt bool   // each pattern is an alternative trigger (otherwise: one multi-pattern)
	S     *Sort
	id    int
	open  bool // mentions a bound variable
}

var (
	termTab = map[string]*Term{}
	termSeq int
)

func mk(t *Term) *Term {
	var b strings.Builder
	b.WriteString(t.Op)
	b.WriteByte('|')
	b.WriteString(t.Name)
	b.WriteByte('|')
	if t.Int != nil {
		b.WriteString(t.Int.String())
	}
	b.WriteByte('|')
	b.WriteString(t.S.str)
	for _, a := range t.Args {
		fmt.Fprintf(&b, ",%d", a.id)
	}
	for _, a := range t.Bound {
		fmt.Fprintf(&b, ";%d", a.id)
	}
	for _, a := range t.Pat {
		fmt.Fprintf(&b, ":%d", a.id)
	}
	if t.PatAlt {
		b.WriteString(":alt")
	}
	k := b.String()
	if x, ok := termTab[k]; ok {
		return x
	}
	termSeq++
	t.id = termSeq
	for _, a := range t.Args {
		if a.open {
			t.open = true
		}
	}
	if t.Op == "bvar" {
		t.open = true
	}
	termTab[k] = t
	return t
}

var (
	TTrue  = mk(&Term{Op: "true", S: SBool})
	TFalse = mk(&Term{Op: "false", S: SBool})
)

func Num(n int64) *Term       { return mk(&Term{Op: "int", Int: big.NewInt(n), S: SInt}) }
func NumB(n *big.Int) *Term   { return mk(&Term{Op: "int", Int: new(big.Int).Set(n), S: SInt}) }
func Var(name string, s *Sort) *Term { return mk(&Term{Op: "var", Name: name, S: s}) }
func BVar(name string, s *Sort) *Term { return mk(&Term{Op: "bvar", Name: name, S: s}) }
func Bool(b bool) *Term {
	if b {
		return TTrue
	}
	return TFalse
}

var pow2 = map[int]*big.Int{}

func Pow2(k int) *big.Int {
	if p, ok := pow2[k]; ok {
		return p
	}
	p := new(big.Int).Lsh(big.NewInt(1), uint(k))
	pow2[k] = p
	return p
}

func (t *Term) IsInt() bool   { return t.Op == "int" }
func (t *Term) IsTrue() bool  { return t.Op == "true" }
func (t *Term) IsFalse() bool { return t.Op == "false" }

var freshSeq = map[string]int{}

// Fresh returns a new symbol with a readable, unique name.
func Fresh(prefix string, s *Sort) *Term {
	freshSeq[prefix]++
	return Var(fmt.Sprintf("%s!%d", prefix, freshSeq[prefix]), s)
}

func App(name string, s *Sort, args ...*Term) *Term {
	return mk(&Term{Op: "app", Name: name, Args: args, S: s})
}

func op(o string, s *Sort, args ...*Term) *Term {
	return mk(&Term{Op: o, Args: args, S: s})
}

func Add(a, b *Term) *Term {
	if a.IsInt() && b.IsInt() {
		return NumB(new(big.Int).Add(a.Int, b.Int))
	}
	if a.IsInt() && a.Int.Sign() == 0 {
		return b
	}
	if b.IsInt() && b.Int.Sign() == 0 {
		return a
	}
	// (x + c1) + c2
	if b.IsInt() && a.Op == "+" && len(a.Args) == 2 && a.Args[1].IsInt() {
		return Add(a.Args[0], NumB(new(big.Int).Add(a.Args[1].Int, b.Int)))
	}
	if a.IsInt() && !b.IsInt() {
		return Add(b, a)
	}
	// c + (k - c) = k
	if b.Op == "-" && len(b.Args) == 2 && b.Args[1] == a {
		return b.Args[0]
	}
	if a.Op == "-" && len(a.Args) == 2 && a.Args[1] == b {
		return a.Args[0]
	}
	return op("+", SInt, a, b)
}

func Sub(a, b *Term) *Term {
	if b.IsInt() {
		return Add(a, NumB(new(big.Int).Neg(b.Int)))
	}
	if a == b {
		return Num(0)
	}
	// (x + c) - x
	if a.Op == "+" && len(a.Args) == 2 && a.Args[0] == b {
		return a.Args[1]
	}
	return op("-", SInt, a, b)
}

func Neg(a *Term) *Term { return Sub(Num(0), a) }

func Mul(a, b *Term) *Term {
	if a.IsInt() && b.IsInt() {
		return NumB(new(big.Int).Mul(a.Int, b.Int))
	}
	if a.IsInt() && !b.IsInt() {
		a, b = b, a
	}
	if b.IsInt() {
		if b.Int.Sign() == 0 {
			return Num(0)
		}
		if b.Int.Cmp(big.NewInt(1)) == 0 {
			return a
		}
	}
	return op("*", SInt, a, b)
}

// Div is SMT-LIB div (floor for positive divisors).
func Div(a, b *Term) *Term {
	if a.IsInt() && b.IsInt() && b.Int.Sign() > 0 {
		q := new(big.Int)
		m := new(big.Int)
		q.DivMod(a.Int, b.Int, m) // Euclidean
		return NumB(q)
	}
	if b.IsInt() && b.Int.Cmp(big.NewInt(1)) == 0 {
		return a
	}
	if b.IsInt() && b.Int.Sign() > 0 {
		// floor(floor(x/a)/b) = floor(x/(a*b)) for positive a, b
		if a.Op == "div" && a.Args[1].IsInt() && a.Args[1].Int.Sign() > 0 {
			return Div(a.Args[0], NumB(new(big.Int).Mul(a.Args[1].Int, b.Int)))
		}
		if lo, hi, ok := bounds(a); ok && lo.Sign() >= 0 && hi.Cmp(b.Int) < 0 {
			return Num(0)
		}
	}
	return op("div", SInt, a, b)
}

func Mod(a, b *Term) *Term {
	if a.IsInt() && b.IsInt() && b.Int.Sign() > 0 {
		q := new(big.Int)
		m := new(big.Int)
		q.DivMod(a.Int, b.Int, m)
		return NumB(m)
	}
	if !b.IsInt() || b.Int.Sign() <= 0 {
		return op("mod", SInt, a, b)
	}
	m := b.Int
	// (x mod m') mod m
	if a.Op == "mod" && a.Args[1].IsInt() {
		r := new(big.Int).Mod(a.Args[1].Int, m)
		if r.Sign() == 0 {
			return Mod(a.Args[0], b)
		}
		if a.Args[1].Int.Cmp(m) <= 0 {
			return a
		}
	}
	// linear normal form: drop multiples of m
	lin, c := linearize(a)
	changed := false
	cm := new(big.Int).Mod(c, m)
	if cm.Cmp(c) != 0 {
		changed = true
	}
	for t, k := range lin {
		if new(big.Int).Mod(k, m).Sign() == 0 {
			delete(lin, t)
			changed = true
		}
	}
	// x - (x mod m') with m | m'  is a multiple of m
	for t, k := range lin {
		if t.Op == "mod" && t.Args[1].IsInt() && new(big.Int).Mod(t.Args[1].Int, m).Sign() == 0 {
			if kx, ok := lin[t.Args[0]]; ok && new(big.Int).Add(kx, k).Sign() == 0 {
				delete(lin, t)
				delete(lin, t.Args[0])
				changed = true
			}
		}
	}
	if changed {
		a = fromLinear(lin, cm)
		if a.IsInt() {
			return Mod(a, b)
		}
	}
	if lo, hi, ok := bounds(a); ok && lo.Sign() >= 0 && hi.Cmp(m) < 0 {
		return a
	}
	return op("mod", SInt, a, b)
}

// linearize splits a term into sum(coef*atom) + const.
func linearize(t *Term) (map[*Term]*big.Int, *big.Int) {
	lin := map[*Term]*big.Int{}
	c := new(big.Int)
	var rec func(x *Term, k *big.Int)
	rec = func(x *Term, k *big.Int) {
		switch {
		case x.IsInt():
			c.Add(c, new(big.Int).Mul(k, x.Int))
		case x.Op == "+":
			for _, a := range x.Args {
				rec(a, k)
			}
		case x.Op == "-" && len(x.Args) == 2:
			rec(x.Args[0], k)
			rec(x.Args[1], new(big.Int).Neg(k))
		case x.Op == "*" && len(x.Args) == 2 && x.Args[1].IsInt():
			rec(x.Args[0], new(big.Int).Mul(k, x.Args[1].Int))
		default:
			if old, ok := lin[x]; ok {
				n := new(big.Int).Add(old, k)
				if n.Sign() == 0 {
					delete(lin, x)
				} else {
					lin[x] = n
				}
			} else {
				lin[x] = new(big.Int).Set(k)
			}
		}
	}
	rec(t, big.NewInt(1))
	return lin, c
}

func fromLinear(lin map[*Term]*big.Int, c *big.Int) *Term {
	var atoms []*Term
	for t := range lin {
		atoms = append(atoms, t)
	}
	sort.Slice(atoms, func(i, j int) bool { return atoms[i].id < atoms[j].id })
	var r *Term
	var negs []*Term
	for _, t := range atoms {
		k := lin[t]
		var term *Term
		if k.Sign() < 0 {
			negs = append(negs, Mul(t, NumB(new(big.Int).Neg(k))))
			continue
		}
		term = Mul(t, NumB(k))
		if r == nil {
			r = term
		} else {
			r = op("+", SInt, r, term)
		}
	}
	if r == nil {
		r = NumB(c)
	} else if c.Sign() != 0 {
		r = Add(r, NumB(c))
	}
	for _, n := range negs {
		r = op("-", SInt, r, n)
	}
	return r
}

// bounds infers a constant interval for simple terms.
// termBounds: constant intervals known from unconditional assumptions (type and
// well-formedness facts of symbolic values), used only to drop wrap-arounds that cannot happen.
var termBounds = map[*Term][2]*big.Int{}

// noteBounds records c <= t and t <= c conjuncts of an unconditional fact.
func noteBounds(fact *Term) {
	if fact.Op == "and" {
		for _, a := range fact.Args {
			noteBounds(a)
		}
		return
	}
	if fact.Op != "<=" || fact.open {
		return
	}
	a, b := fact.Args[0], fact.Args[1]
	switch {
	case a.IsInt() && !b.IsInt():
		cur := termBounds[b]
		if cur[0] == nil || a.Int.Cmp(cur[0]) > 0 {
			cur[0] = a.Int
		}
		termBounds[b] = cur
	case b.IsInt() && !a.IsInt():
		cur := termBounds[a]
		if cur[1] == nil || b.Int.Cmp(cur[1]) < 0 {
			cur[1] = b.Int
		}
		termBounds[a] = cur
	}
}

func bounds(t *Term) (lo, hi *big.Int, ok bool) {
	if b, has := termBounds[t]; has && b[0] != nil && b[1] != nil {
		return b[0], b[1], true
	}
	switch {
	case t.IsInt():
		return t.Int, t.Int, true
	case t.Op == "mod" && t.Args[1].IsInt() && t.Args[1].Int.Sign() > 0:
		return big.NewInt(0), new(big.Int).Sub(t.Args[1].Int, big.NewInt(1)), true
	case t.Op == "+":
		lo, hi = new(big.Int), new(big.Int)
		for _, a := range t.Args {
			l, h, k := bounds(a)
			if !k {
				return nil, nil, false
			}
			lo.Add(lo, l)
			hi.Add(hi, h)
		}
		return lo, hi, true
	case t.Op == "-" && len(t.Args) == 2:
		l1, h1, k1 := bounds(t.Args[0])
		l2, h2, k2 := bounds(t.Args[1])
		if !k1 || !k2 {
			return nil, nil, false
		}
		return new(big.Int).Sub(l1, h2), new(big.Int).Sub(h1, l2), true
	case t.Op == "*" && t.Args[1].IsInt() && t.Args[1].Int.Sign() >= 0:
		l, h, k := bounds(t.Args[0])
		if !k {
			return nil, nil, false
		}
		return new(big.Int).Mul(l, t.Args[1].Int), new(big.Int).Mul(h, t.Args[1].Int), true
	case t.Op == "ite":
		l1, h1, k1 := bounds(t.Args[1])
		l2, h2, k2 := bounds(t.Args[2])
		if !k1 || !k2 {
			return nil, nil, false
		}
		if l2.Cmp(l1) < 0 {
			l1 = l2
		}
		if h2.Cmp(h1) > 0 {
			h1 = h2
		}
		return l1, h1, true
	case t.Op == "div" && t.Args[1].IsInt() && t.Args[1].Int.Sign() > 0:
		l, h, k := bounds(t.Args[0])
		if !k {
			return nil, nil, false
		}
		fl := func(x *big.Int) *big.Int {
			q, m := new(big.Int), new(big.Int)
			q.DivMod(x, t.Args[1].Int, m)
			return q
		}
		return fl(l), fl(h), true
	}
	return nil, nil, false
}

func cmpFold(o string, a, b *Term) (*Term, bool) {
	if a.IsInt() && b.IsInt() {
		c := a.Int.Cmp(b.Int)
		switch o {
		case "<":
			return Bool(c < 0), true
		case "<=":
			return Bool(c <= 0), true
		}
	}
	if a == b {
		return Bool(o == "<="), true
	}
	return nil, false
}

func Lt(a, b *Term) *Term {
	if r, ok := cmpFold("<", a, b); ok {
		return r
	}
	return op("<", SBool, a, b)
}
func Le(a, b *Term) *Term {
	if r, ok := cmpFold("<=", a, b); ok {
		return r
	}
	return op("<=", SBool, a, b)
}
func Gt(a, b *Term) *Term { return Lt(b, a) }
func Ge(a, b *Term) *Term { return Le(b, a) }

func Eq(a, b *Term) *Term {
	if a == b {
		return TTrue
	}
	if a.S != b.S {
		panic(fmt.Sprintf("Eq sort mismatch %s vs %s: %s = %s", a.S, b.S, a.Short(), b.Short()))
	}
	if a.IsInt() && b.IsInt() {
		return Bool(a.Int.Cmp(b.Int) == 0)
	}
	if a.S == SBool {
		if a.IsTrue() {
			return b
		}
		if b.IsTrue() {
			return a
		}
		if a.IsFalse() {
			return Not(b)
		}
		if b.IsFalse() {
			return Not(a)
		}
	}
	if a.id > b.id {
		a, b = b, a
	}
	return op("=", SBool, a, b)
}

func Ne(a, b *Term) *Term { return Not(Eq(a, b)) }

func Not(a *Term) *Term {
	switch a.Op {
	case "true":
		return TFalse
	case "false":
		return TTrue
	case "not":
		return a.Args[0]
	case "<":
		return Le(a.Args[1], a.Args[0])
	case "<=":
		return Lt(a.Args[1], a.Args[0])
	}
	return op("not", SBool, a)
}

func And(xs ...*Term) *Term {
	var out []*Term
	seen := map[*Term]bool{}
	for _, x := range xs {
		if x == nil || x.IsTrue() {
			continue
		}
		if x.IsFalse() {
			return TFalse
		}
		if x.Op == "and" {
			for _, y := range x.Args {
				if !seen[y] {
					seen[y] = true
					out = append(out, y)
				}
			}
			continue
		}
		if !seen[x] {
			seen[x] = true
			out = append(out, x)
		}
	}
	for _, x := range out {
		if seen[Not(x)] {
			return TFalse
		}
	}
	switch len(out) {
	case 0:
		return TTrue
	case 1:
		return out[0]
	}
	return op("and", SBool, out...)
}

func Or(xs ...*Term) *Term {
	var out []*Term
	seen := map[*Term]bool{}
	for _, x := range xs {
		if x == nil || x.IsFalse() {
			continue
		}
		if x.IsTrue() {
			return TTrue
		}
		if x.Op == "or" {
			for _, y := range x.Args {
				if !seen[y] {
					seen[y] = true
					out = append(out, y)
				}
			}
			continue
		}
		if !seen[x] {
			seen[x] = true
			out = append(out, x)
		}
	}
	for _, x := range out {
		if seen[Not(x)] {
			return TTrue
		}
	}
	switch len(out) {
	case 0:
		return TFalse
	case 1:
		return out[0]
	}
	return op("or", SBool, out...)
}

func Implies(a, b *Term) *Term {
	if a.IsTrue() {
		return b
	}
	if a.IsFalse() || b.IsTrue() {
		return TTrue
	}
	if b.IsFalse() {
		return Not(a)
	}
	return op("=>", SBool, a, b)
}

func Ite(c, a, b *Term) *Term {
	if c.IsTrue() {
		return a
	}
	if c.IsFalse() {
		return b
	}
	if a == b {
		return a
	}
	if a.S != b.S {
		panic(fmt.Sprintf("Ite sort mismatch %s vs %s", a.S, b.S))
	}
	if a.S == SBool {
		if a.IsTrue() && b.IsFalse() {
			return c
		}
		if a.IsFalse() && b.IsTrue() {
			return Not(c)
		}
		if a.IsTrue() {
			return Or(c, b)
		}
		if b.IsFalse() {
			return And(c, a)
		}
		if a.IsFalse() {
			return And(Not(c), b)
		}
		if b.IsTrue() {
			return Or(Not(c), a)
		}
	}
	// ite(c, x, ite(c, y, z)) = ite(c, x, z)
	if b.Op == "ite" && b.Args[0] == c {
		return Ite(c, a, b.Args[2])
	}
	if a.Op == "ite" && a.Args[0] == c {
		return Ite(c, a.Args[1], b)
	}
	return op("ite", a.S, c, a, b)
}

func Select(a, i *Term) *Term {
	if a.S.Kind != 2 {
		panic("Select on non-array " + a.Short())
	}
	// select over store with syntactically decidable indices
	for a.Op == "store" {
		j := a.Args[1]
		if j == i {
			return a.Args[2]
		}
		if d := distinctIdx(i, j); d {
			a = a.Args[0]
			continue
		}
		break
	}
	if a.Op == "constarr" {
		return a.Args[0]
	}
	return op("select", a.S.Elem, a, i)
}

// distinctIdx reports whether two index terms are syntactically known to differ.
func distinctIdx(i, j *Term) bool {
	if i.IsInt() && j.IsInt() {
		return i.Int.Cmp(j.Int) != 0
	}
	// x + c1 vs x + c2, x vs x + c
	bi, ci := splitConst(i)
	bj, cj := splitConst(j)
	if bi == bj && ci.Cmp(cj) != 0 {
		return true
	}
	return false
}

func splitConst(t *Term) (*Term, *big.Int) {
	if t.Op == "+" && len(t.Args) == 2 && t.Args[1].IsInt() {
		return t.Args[0], t.Args[1].Int
	}
	if t.IsInt() {
		return nil, t.Int
	}
	return t, big.NewInt(0)
}

func Store(a, i, v *Term) *Term {
	if a.S.Kind != 2 || a.S.Elem != v.S {
		panic(fmt.Sprintf("Store sort mismatch: %s[%s] := %s", a.S, i.S, v.S))
	}
	if a.Op == "store" && a.Args[1] == i {
		a = a.Args[0]
	}
	if v.Op == "select" && v.Args[0] == a && v.Args[1] == i {
		return a
	}
	return op("store", a.S, a, i, v)
}

// ConstArr is the array holding v everywhere.
func ConstArr(s *Sort, v *Term) *Term {
	return mk(&Term{Op: "constarr", Args: []*Term{v}, S: s})
}

func Forall(bound []*Term, body *Term, pat ...*Term) *Term {
	if body.IsTrue() || body.IsFalse() {
		return body
	}
	// a pattern may not contain boolean structure (ite, and, not, ...)
	for _, p := range pat {
		if !validPattern(p) {
			pat = nil
			break
		}
	}
	t := mk(&Term{Op: "forall", Bound: bound, Args: []*Term{body}, Pat: pat, S: SBool})
	t.open = hasFreeBound(t)
	return t
}

// ForallAuto: a single-variable quantifier from a specification, with the
// minimal array reads / function applications over the bound variable as
// alternative triggers (the solvers' own trigger inference proved erratic on
// these: explicit triggers make the instantiation deterministic).
// groundNames: closed subterms that cannot stand in a trigger (they hold an ite or a
// Boolean connective, typically from merged states) are named by constants; the caller
// assumes the defining equalities.
var groundNames = map[*Term]*Term{}
var namedDef = map[*Term]*Term{} // constant -> the term it names

func abstractGround(body *Term) (*Term, []*Term) {
	var defs []*Term
	memo := map[*Term]*Term{}
	var rec func(x *Term) *Term
	rec = func(x *Term) *Term {
		if len(x.Args) == 0 {
			return x
		}
		if r, ok := memo[x]; ok {
			return r
		}
		var r *Term
		if !x.open && x.S != SBool && !validPattern(x) {
			c, ok := groundNames[x]
			if !ok {
				c = Fresh("named", x.S)
				groundNames[x] = c
				namedDef[c] = x
			}
			defs = append(defs, Eq(c, x))
			r = c
		} else if x.S != SBool && !x.open {
			r = x
		} else {
			args := make([]*Term, len(x.Args))
			ch := false
			for i, a := range x.Args {
				args[i] = rec(a)
				if args[i] != a {
					ch = true
				}
			}
			switch {
			case !ch:
				r = x
			case x.Op == "forall" && len(x.Pat) > 0:
				pats := make([]*Term, len(x.Pat))
				for i, p := range x.Pat {
					pats[i] = rec(p)
				}
				if x.PatAlt {
					r = ForallAlt(x.Bound, args[0], pats)
				} else {
					r = Forall(x.Bound, args[0], pats...)
				}
			default:
				r = rebuild(x, args)
			}
		}
		memo[x] = r
		return r
	}
	return rec(body), defs
}

func ForallAuto(bv *Term, body *Term) *Term {
	if body.IsTrue() || body.IsFalse() {
		return body
	}
	pats := autoPatterns(bv, body)
	if len(pats) == 0 {
		return Forall([]*Term{bv}, body)
	}
	var written *Term
	// index normalisation: a read a[c + i] becomes a[k] with k = c + i ranging instead of i, so that
	// the trigger matches a read of a at any index term (not only those written as c + something)
	for _, p := range pats {
		if p.Op != "select" || (p.Args[1].Op != "+" && p.Args[1].Op != "-") {
			continue
		}
		// the index is i + c for some c free of i (any linear arrangement of it)
		lin, k0 := linearize(p.Args[1])
		if co, ok := lin[bv]; !ok || co.Cmp(big.NewInt(1)) != 0 {
			continue
		}
		delete(lin, bv)
		c := fromLinear(lin, k0)
		if containsTerm(c, bv) || containsTerm(p.Args[0], bv) {
			continue
		}
		// triggers of the written form that are not reads at c + i (function applications over i) keep
		// the written quantifier alive beside the normalised one: the two are equivalent
		var keep []*Term
		for _, q := range pats {
			if q.Op == "app" {
				keep = append(keep, q)
			}
		}
		if len(keep) > 0 {
			o := mk(&Term{Op: "forall", Bound: []*Term{bv}, Args: []*Term{body}, Pat: keep, PatAlt: true, S: SBool})
			o.open = hasFreeBound(o)
			written = o
		}
		k := BVar(bv.Name+"@", SInt)
		body = normSums(Subst(body, map[*Term]*Term{bv: Sub(k, c)}), k)
		bv = k
		pats = autoPatterns(bv, body)
		break
	}
	if len(pats) == 0 {
		return Forall([]*Term{bv}, body)
	}
	t := mk(&Term{Op: "forall", Bound: []*Term{bv}, Args: []*Term{body}, Pat: pats, PatAlt: true, S: SBool})
	t.open = hasFreeBound(t)
	if written != nil {
		return And(t, written)
	}
	return t
}

// ForallAlt: explicit alternative triggers.
func ForallAlt(bound []*Term, body *Term, pats []*Term) *Term {
	if body.IsTrue() || body.IsFalse() {
		return body
	}
	for _, p := range pats {
		if !validPattern(p) {
			panic("trigger with boolean structure")
		}
	}
	t := mk(&Term{Op: "forall", Bound: bound, Args: []*Term{body}, Pat: pats, PatAlt: true, S: SBool})
	t.open = hasFreeBound(t)
	return t
}

func autoPatterns(bv, body *Term) []*Term {
	contains := map[*Term]bool{}
	var has func(t *Term) bool
	has = func(t *Term) bool {
		if v, ok := contains[t]; ok {
			return v
		}
		r := t == bv
		if !r && t.open {
			for _, a := range t.Args {
				if has(a) {
					r = true
					break
				}
			}
		}
		contains[t] = r
		return r
	}
	isCand := func(t *Term) bool {
		return (t.Op == "select" || (t.Op == "app" && len(t.Args) > 0)) && validPattern(t) && !hasQuantInside(t)
	}
	seen := map[*Term]bool{}
	var out []*Term
	var walk func(t *Term)
	walk = func(t *Term) {
		if seen[t] || !has(t) {
			return
		}
		seen[t] = true
		if t.Op == "forall" || t.Op == "exists" {
			// triggers of an outer quantifier may come from the body of an inner one only if free of its variables: skip
			return
		}
		if isCand(t) {
			// minimal: no argument holds a candidate over the variable
			inner := false
			var chk func(u *Term)
			chk = func(u *Term) {
				if inner || !has(u) {
					return
				}
				if isCand(u) {
					inner = true
					return
				}
				for _, a := range u.Args {
					chk(a)
				}
			}
			for _, a := range t.Args {
				chk(a)
			}
			if !inner {
				out = append(out, t)
				return
			}
		}
		for _, a := range t.Args {
			walk(a)
		}
	}
	walk(body)
	if liftTriggers {
		// lift: where a minimal read a[k] is itself the argument of reads or applications (st[a[k]],
		// f(a[k])), those stand in for it: the array theory makes bare reads a[k] of its own at every
		// index it meets, and each would instantiate the quantifier for nothing
		var lifted []*Term
		seenL := map[*Term]bool{}
		for _, m := range out {
			var parents []*Term
			seenP := map[*Term]bool{}
			var find func(t *Term)
			visited := map[*Term]bool{}
			find = func(t *Term) {
				if visited[t] || !has(t) || t.Op == "forall" || t.Op == "exists" {
					return
				}
				visited[t] = true
				for _, a := range t.Args {
					if a == m && isCand(t) && !seenP[t] {
						seenP[t] = true
						parents = append(parents, t)
					}
				}
				for _, a := range t.Args {
					find(a)
				}
			}
			find(body)
			if len(parents) == 0 || m.Op != "select" {
				parents = []*Term{m}
			}
			for _, p := range parents {
				if !seenL[p] {
					seenL[p] = true
					lifted = append(lifted, p)
				}
			}
		}
		out = lifted
	}
	if len(out) > 8 {
		out = out[:8]
	}
	return out
}

var liftTriggers = os.Getenv("GOVC_LIFT") != ""

// normSums rewrites every maximal sum that mentions v into its linear normal form
// (c + ((k - c) - 1) becomes k - 1).
func normSums(t, v *Term) *Term {
	memo := map[*Term]*Term{}
	var rec func(x *Term) *Term
	rec = func(x *Term) *Term {
		if !containsTerm(x, v) || len(x.Args) == 0 {
			return x
		}
		if r, ok := memo[x]; ok {
			return r
		}
		var r *Term
		if x.Op == "+" || x.Op == "-" {
			lin, c := linearize(x)
			// atoms may hold sums of their own (inside selects, mods, ...)
			nl := map[*Term]*big.Int{}
			for a, k := range lin {
				na := rec(a)
				if old, ok := nl[na]; ok {
					nl[na] = new(big.Int).Add(old, k)
				} else {
					nl[na] = k
				}
			}
			r = fromLinear(nl, c)
		} else {
			args := make([]*Term, len(x.Args))
			ch := false
			for i, a := range x.Args {
				args[i] = rec(a)
				if args[i] != a {
					ch = true
				}
			}
			switch {
			case !ch:
				r = x
			case x.Op == "forall" && len(x.Pat) > 0:
				pats := make([]*Term, len(x.Pat))
				for i, p := range x.Pat {
					pats[i] = rec(p)
				}
				if x.PatAlt {
					r = ForallAlt(x.Bound, args[0], pats)
				} else {
					r = Forall(x.Bound, args[0], pats...)
				}
			default:
				r = rebuild(x, args)
			}
		}
		memo[x] = r
		return r
	}
	return rec(t)
}

func containsTerm(t, x *Term) bool {
	if t == x {
		return true
	}
	if !t.open {
		return false
	}
	for _, a := range t.Args {
		if containsTerm(a, x) {
			return true
		}
	}
	return false
}

func hasQuantInside(t *Term) bool {
	if t.Op == "forall" || t.Op == "exists" {
		return true
	}
	for _, a := range t.Args {
		if a.open && hasQuantInside(a) {
			return true
		}
	}
	return false
}

func Exists(bound []*Term, body *Term) *Term {
	if body.IsTrue() || body.IsFalse() {
		return body
	}
	t := mk(&Term{Op: "exists", Bound: bound, Args: []*Term{body}, S: SBool})
	t.open = hasFreeBound(t)
	return t
}

// hasFreeBound: whether bound variables other than the term's own occur free.
func hasFreeBound(t *Term) bool {
	free := map[*Term]bool{}
	var walk func(x *Term, bound map[*Term]bool)
	seen := map[*Term]bool{}
	walk = func(x *Term, bound map[*Term]bool) {
		if !x.open {
			return
		}
		if x.Op == "bvar" {
			if !bound[x] {
				free[x] = true
			}
			return
		}
		if x.Op == "forall" || x.Op == "exists" {
			nb := map[*Term]bool{}
			for k := range bound {
				nb[k] = true
			}
			for _, b := range x.Bound {
				nb[b] = true
			}
			for _, a := range x.Args {
				walk(a, nb)
			}
			for _, a := range x.Pat {
				walk(a, nb)
			}
			return
		}
		if len(bound) == 0 {
			if seen[x] {
				return
			}
			seen[x] = true
		}
		for _, a := range x.Args {
			walk(a, bound)
		}
	}
	nb := map[*Term]bool{}
	for _, b := range t.Bound {
		nb[b] = true
	}
	t.open = true
	for _, a := range t.Args {
		walk(a, nb)
	}
	return len(free) > 0
}

// Subst replaces variables (var/bvar terms) by terms.
func Subst(t *Term, m map[*Term]*Term) *Term {
	memo := map[*Term]*Term{}
	var rec func(x *Term) *Term
	rec = func(x *Term) *Term {
		if r, ok := m[x]; ok {
			return r
		}
		if len(x.Args) == 0 {
			return x
		}
		if r, ok := memo[x]; ok {
			return r
		}
		args := make([]*Term, len(x.Args))
		ch := false
		for i, a := range x.Args {
			args[i] = rec(a)
			if args[i] != a {
				ch = true
			}
		}
		var r *Term
		if !ch {
			r = x
		} else if x.Op == "forall" && len(x.Pat) > 0 {
			pats := make([]*Term, len(x.Pat))
			for i, p := range x.Pat {
				pats[i] = rec(p)
			}
			if x.PatAlt {
				r = ForallAlt(x.Bound, args[0], pats)
			} else {
				r = Forall(x.Bound, args[0], pats...)
			}
		} else {
			r = rebuild(x, args)
		}
		memo[x] = r
		return r
	}
	return rec(t)
}

func rebuild(x *Term, args []*Term) *Term {
	switch x.Op {
	case "+":
		r := args[0]
		for _, a := range args[1:] {
			r = Add(r, a)
		}
		return r
	case "-":
		return Sub(args[0], args[1])
	case "*":
		return Mul(args[0], args[1])
	case "div":
		return Div(args[0], args[1])
	case "mod":
		return Mod(args[0], args[1])
	case "<":
		return Lt(args[0], args[1])
	case "<=":
		return Le(args[0], args[1])
	case "=":
		return Eq(args[0], args[1])
	case "not":
		return Not(args[0])
	case "and":
		return And(args...)
	case "or":
		return Or(args...)
	case "=>":
		return Implies(args[0], args[1])
	case "ite":
		return Ite(args[0], args[1], args[2])
	case "select":
		return Select(args[0], args[1])
	case "store":
		return Store(args[0], args[1], args[2])
	case "forall":
		var pat []*Term
		return Forall(x.Bound, args[0], pat...)
	case "exists":
		return Exists(x.Bound, args[0])
	}
	return mk(&Term{Op: x.Op, Name: x.Name, Int: x.Int, Args: args, Bound: x.Bound, S: x.S})
}

// Short renders a term for messages (tree form, truncated).
func (t *Term) Short() string {
	s := t.str(map[*Term]string{})
	if len(s) > 300 {
		s = s[:300] + "…"
	}
	return s
}

func symName(n string) string {
	for _, c := range n {
		if !(c >= 'a' && c <= 'z' || c >= 'A' && c <= 'Z' || c >= '0' && c <= '9' || c == '_' || c == '.' || c == '!' || c == '$' || c == '@' || c == '#') {
			return "|" + strings.ReplaceAll(n, "|", "/") + "|"
		}
	}
	return n
}

func (t *Term) str(names map[*Term]string) string {
	if n, ok := names[t]; ok {
		return n
	}
	switch t.Op {
	case "int":
		if t.Int.Sign() < 0 {
			return "(- " + new(big.Int).Neg(t.Int).String() + ")"
		}
		return t.Int.String()
	case "true", "false":
		return t.Op
	case "var", "bvar":
		return symName(t.Name)
	case "constarr":
		return "((as const " + t.S.str + ") " + t.Args[0].str(names) + ")"
	case "forall", "exists":
		var b strings.Builder
		b.WriteString("(" + t.Op + " (")
		for _, v := range t.Bound {
			b.WriteString("(" + symName(v.Name) + " " + v.S.str + ")")
		}
		b.WriteString(") ")
		qid := "q." + strings.Trim(symName(t.Bound[0].Name), "|")
		if t.Op == "exists" {
			b.WriteString(t.Args[0].str(names))
		} else if len(t.Pat) > 0 && t.PatAlt {
			b.WriteString("(! " + t.Args[0].str(names) + " :qid |" + qid + "|")
			for _, p := range t.Pat {
				b.WriteString(" :pattern (" + p.str(names) + ")")
			}
			b.WriteString(")")
		} else if len(t.Pat) > 0 {
			b.WriteString("(! " + t.Args[0].str(names) + " :qid |" + qid + "| :pattern (")
			for _, p := range t.Pat {
				b.WriteString(p.str(names) + " ")
			}
			b.WriteString("))")
		} else {
			b.WriteString("(! " + t.Args[0].str(names) + " :qid |" + qid + "|)")
		}
		b.WriteString(")")
		return b.String()
	}
	var b strings.Builder
	b.WriteByte('(')
	if t.Op == "app" {
		if len(t.Args) == 0 {
			return symName(t.Name)
		}
		b.WriteString(symName(t.Name))
	} else {
		b.WriteString(t.Op)
	}
	for _, a := range t.Args {
		b.WriteByte(' ')
		b.WriteString(a.str(names))
	}
	b.WriteByte(')')
	return b.String()
}

// Script builds an SMT-LIB script: declarations of every symbol reachable from
// the given assertions, define-fun for shared closed sub-terms, the asserts.
type Script struct {
	Raw     func(used map[string]bool) string
	Prelude string
	Asserts []*Term
	Defs    func() string
}

func (s *Script) String(getValues []*Term) string {
	var out strings.Builder
	out.WriteString("(set-option :produce-models true)\n(set-logic ALL)\n")
	out.WriteString(s.Prelude)
	usedBuiltin := map[string]bool{}
	// count references
	refs := map[*Term]int{}
	var order []*Term
	var walk func(t *Term)
	walk = func(t *Term) {
		refs[t]++
		if refs[t] > 1 {
			return
		}
		for _, a := range t.Args {
			walk(a)
		}
		for _, a := range t.Pat {
			walk(a)
		}
		order = append(order, t) // post-order
	}
	roots := append([]*Term{}, s.Asserts...)
	roots = append(roots, getValues...)
	for _, a := range roots {
		walk(a)
	}
	// declarations
	type fdecl struct {
		name string
		sig  string
	}
	decl := map[string]string{}
	for _, t := range order {
		switch t.Op {
		case "var":
			decl[t.Name] = "(declare-fun " + symName(t.Name) + " () " + t.S.str + ")"
		case "app":
			if _, ok := builtinFuns[t.Name]; ok {
				usedBuiltin[t.Name] = true
				continue
			}
			if strings.HasPrefix(t.Name, "spec.") {
				continue
			}
			var b strings.Builder
			b.WriteString("(declare-fun " + symName(t.Name) + " (")
			for i, a := range t.Args {
				if i > 0 {
					b.WriteByte(' ')
				}
				b.WriteString(a.S.str)
			}
			b.WriteString(") " + t.S.str + ")")
			if old, ok := decl[t.Name]; ok && old != b.String() {
				panic("conflicting declarations for " + t.Name + ": " + old + " vs " + b.String())
			}
			decl[t.Name] = b.String()
		}
	}
	var bn []string
	for n := range usedBuiltin {
		bn = append(bn, n)
	}
	sort.Strings(bn)
	for _, n := range bn {
		out.WriteString(preludeParts[n])
	}
	var names []string
	for n := range decl {
		names = append(names, n)
	}
	sort.Strings(names)
	for _, n := range names {
		out.WriteString(decl[n])
		out.WriteByte('\n')
	}
	out.WriteString(s.postDecl())
	if s.Raw != nil {
		used := map[string]bool{}
		for _, t := range order {
			if t.Op == "app" || t.Op == "var" {
				used[t.Name] = true
			}
		}
		out.WriteString(s.Raw(used))
	}
	// shared closed terms
	nm := map[*Term]string{}
	for _, t := range order {
		if t.open || len(t.Args) == 0 || refs[t] < 2 {
			continue
		}
		if t.Op == "int" || t.Op == "var" {
			continue
		}
		n := fmt.Sprintf("t.%d", t.id)
		def := t.str(nm)
		nm[t] = n
		fmt.Fprintf(&out, "(define-fun %s () %s %s)\n", n, t.S.str, def)
	}
	for _, a := range s.Asserts {
		fmt.Fprintf(&out, "(assert %s)\n", a.str(nm))
	}
	out.WriteString("(check-sat)\n")
	if len(getValues) > 0 {
		out.WriteString("(get-value (")
		for _, v := range getValues {
			out.WriteString(v.str(nm) + " ")
		}
		out.WriteString("))\n")
	}
	return out.String()
}

// builtinFuns are defined by the prelude (define-fun) rather than declared.
var builtinFuns = map[string]bool{}

func (s *Script) postDecl() string {
	if s.Defs != nil {
		return s.Defs()
	}
	return ""
}

// definedFuncs: spec functions with a visible body (the solvers expand them as macros, also inside
// triggers, where their ite/and structure is not allowed).
var definedFuncs = map[string]bool{}

func validPattern(t *Term) bool {
	if t.Op == "app" && definedFuncs[t.Name] {
		return false
	}
	switch t.Op {
	case "ite", "and", "or", "not", "=>", "=", "<", "<=", "forall", "exists", "true", "false":
		return false
	}
	for _, a := range t.Args {
		if !validPattern(a) {
			return false
		}
	}
	return true
}
