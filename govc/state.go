package main

// Symbolic state, memory model (Burstall regions) and state merging.

import (
	"fmt"
	"go/types"
	"sort"
	"strings"

	"golang.org/x/tools/go/ssa"
)

type deferEntry struct {
	instr *ssa.Defer
	ctx   string
	guard *Term
	args  []Value
	fn    Value // callee value for closures
}

type State struct {
	pc     *Term
	locals map[*ssa.Alloc]Value
	heap   map[string]*Term
	defers []deferEntry
	// lazily havocked region prefixes (for regions not yet touched when a callee's
	// frame named them): first use yields a fresh array instead of the entry one
	lazy []lazyHavoc
}

type lazyHavoc struct {
	prefix string
	id     int
}

var lazySeq int

func (s *State) clone() *State {
	n := &State{pc: s.pc, locals: make(map[*ssa.Alloc]Value, len(s.locals)), heap: make(map[string]*Term, len(s.heap))}
	for k, v := range s.locals {
		n.locals[k] = v
	}
	for k, v := range s.heap {
		n.heap[k] = v
	}
	n.defers = append([]deferEntry{}, s.defers...)
	n.lazy = append([]lazyHavoc{}, s.lazy...)
	return n
}

// regionSorts remembers the sort of every region ever touched.
var regionSorts = map[string]*Sort{}

func (s *State) region(name string, srt *Sort) *Term {
	if t, ok := s.heap[name]; ok {
		return t
	}
	if old, ok := regionSorts[name]; ok && old != srt {
		panic(fmt.Sprintf("region %s used at sorts %s and %s", name, old, srt))
	}
	regionSorts[name] = srt
	t := Var(name, srt)
	for i := len(s.lazy) - 1; i >= 0; i-- {
		if strings.HasPrefix(name, s.lazy[i].prefix) {
			t = Var(fmt.Sprintf("havoc.%s!z%d", name, s.lazy[i].id), srt)
			break
		}
	}
	s.heap[name] = t
	return t
}

func (s *State) setRegion(name string, t *Term) {
	regionSorts[name] = t.S
	s.heap[name] = t
}

const clockName = "$clock"

func (s *State) clock() *Term { return s.region(clockName, SInt) }

func (s *State) newRef() *Term {
	r := Add(s.clock(), Num(1))
	s.heap[clockName] = r
	return r
}

// mergeStates joins states reaching one program point. Conditions are the
// states' own path conditions (mutually exclusive by construction).
func mergeStates(sts []*State) *State {
	if len(sts) == 1 {
		return sts[0].clone()
	}
	out := &State{locals: map[*ssa.Alloc]Value{}, heap: map[string]*Term{}}
	for _, s := range sts {
		for _, lz := range s.lazy {
			dup := false
			for _, o := range out.lazy {
				if o == lz {
					dup = true
				}
			}
			if !dup {
				out.lazy = append(out.lazy, lz)
			}
		}
	}
	var pcs []*Term
	for _, s := range sts {
		pcs = append(pcs, s.pc)
	}
	out.pc = Or(pcs...)
	// heap
	keys := map[string]bool{}
	for _, s := range sts {
		for k := range s.heap {
			keys[k] = true
		}
	}
	var ks []string
	for k := range keys {
		ks = append(ks, k)
	}
	sort.Strings(ks)
	for _, k := range ks {
		srt := regionSorts[k]
		var cur *Term
		for i := len(sts) - 1; i >= 0; i-- {
			v := sts[i].region(k, srt)
			if cur == nil {
				cur = v
			} else {
				cur = Ite(sts[i].pc, v, cur)
			}
		}
		out.heap[k] = cur
	}
	// locals: only those present in all predecessors survive
	for a, v0 := range sts[len(sts)-1].locals {
		cur := v0
		ok := true
		for i := len(sts) - 2; i >= 0; i-- {
			v, has := sts[i].locals[a]
			if !has {
				ok = false
				break
			}
			cur = valueIte(sts[i].pc, v, cur)
		}
		if ok {
			out.locals[a] = cur
		}
	}
	// defers: ordered union with guards
	type dk struct {
		i   *ssa.Defer
		ctx string
	}
	idx := map[dk]int{}
	for _, s := range sts {
		for _, d := range s.defers {
			k := dk{d.instr, d.ctx}
			g := And(s.pc, d.guard)
			if j, ok := idx[k]; ok {
				out.defers[j].guard = Or(out.defers[j].guard, g)
			} else {
				idx[k] = len(out.defers)
				nd := d
				nd.guard = g
				out.defers = append(out.defers, nd)
			}
		}
	}
	// a defer present in all predecessors unconditionally stays unconditional
	for j := range out.defers {
		all := true
		for _, s := range sts {
			found := false
			for _, d := range s.defers {
				if d.instr == out.defers[j].instr && d.ctx == out.defers[j].ctx && d.guard.IsTrue() {
					found = true
				}
			}
			if !found {
				all = false
			}
		}
		if all {
			out.defers[j].guard = TTrue
		}
	}
	return out
}

// ---- pointers and memory ----

func (x *Exec) ptrOf(v Value) *Ptr {
	if v.P != nil {
		return v.P
	}
	pt, ok := v.T.Underlying().(*types.Pointer)
	if !ok {
		panic(fmt.Sprintf("ptrOf non-pointer %v", v.T))
	}
	return &Ptr{Kind: PObj, Ref: v.One(), RootT: pt.Elem()}
}

func leafRegion(p *Ptr, c Comp) (string, *Sort) {
	switch p.Kind {
	case PObj:
		return regionBase(p.RootT) + pathName(p.RootT, p.Path) + c.Suffix, SArr(c.Sort)
	case PElem:
		return elemsBase(p.RootT) + pathName(p.RootT, p.Path) + c.Suffix, SArr(SArr(c.Sort))
	}
	panic("leafRegion kind")
}

func pointee(p *Ptr) types.Type {
	_, _, t := compRange(p.RootT, p.Path)
	return t
}

// load reads the value a pointer designates.
func (x *Exec) load(st *State, p *Ptr) Value {
	t := pointee(p)
	if _, isArr := t.Underlying().(*types.Array); isArr {
		panic("load of a whole array value (outside the verified subset)")
	}
	comps := Flatten(t)
	out := Value{T: t, C: make([]*Term, len(comps))}
	switch p.Kind {
	case PLocal:
		cell, ok := st.locals[p.Alloc]
		if !ok {
			panic(fmt.Sprintf("load of dead local %s", p.Alloc.Comment))
		}
		if len(p.Path) == 0 {
			return cell
		}
		lo, hi, _ := compRange(p.RootT, p.Path)
		copy(out.C, cell.C[lo:hi])
		return out
	case PGlobal:
		return x.globalValue(p.Global, p.Path)
	case PObj:
		for i, c := range comps {
			name, srt := leafRegion(p, c)
			out.C[i] = Select(st.region(name, srt), p.Ref)
		}
	case PElem:
		for i, c := range comps {
			name, srt := leafRegion(p, c)
			out.C[i] = Select(Select(st.region(name, srt), p.Ref), p.Idx)
		}
	}
	x.assumeTrue(WFValue(out))
	x.entryHeapFacts(st, p, comps)
	x.assumeTrue(x.refsBelowClock(st, out))
	return out
}

// fromEntryHeap: the term is a (nested) select on an entry-state region variable.
func fromEntryHeap(t *Term) bool {
	for t.Op == "select" {
		t = t.Args[0]
	}
	return t.Op == "var" && !strings.Contains(t.Name, "!")
}

// refsBelowClock: every reference found in memory was allocated before now.
func (x *Exec) refsBelowClock(st *State, v Value) *Term {
	var fs []*Term
	comps := Flatten(v.T)
	for i, c := range comps {
		if c.Sort == SInt && c.T == nil && !hasAnySuffix(c.Suffix, ".off", ".len", ".cap") {
			fs = append(fs, Le(v.C[i], st.clock()))
		}
	}
	return And(fs...)
}

func hasAnySuffix(s string, suf ...string) bool {
	for _, u := range suf {
		if len(s) >= len(u) && s[len(s)-len(u):] == u {
			return true
		}
	}
	return false
}

func (x *Exec) store(st *State, p *Ptr, v Value) {
	t := pointee(p)
	comps := Flatten(t)
	if len(v.C) != len(comps) {
		if v.P != nil && len(v.C) == 0 {
			if p.Kind == PLocal && len(p.Path) == 0 {
				st.locals[p.Alloc] = v
				return
			}
			panic("interior pointer stored into the heap (outside the verified subset)")
		}
		panic(fmt.Sprintf("store arity mismatch: %v gets %d comps, want %d", t, len(v.C), len(comps)))
	}
	switch p.Kind {
	case PLocal:
		if len(p.Path) == 0 {
			nv := v
			nv.T = t
			st.locals[p.Alloc] = nv
			return
		}
		cell := st.locals[p.Alloc]
		nc := Value{T: cell.T, C: append([]*Term{}, cell.C...)}
		lo, hi, _ := compRange(p.RootT, p.Path)
		copy(nc.C[lo:hi], v.C)
		st.locals[p.Alloc] = nc
	case PGlobal:
		panic("store to package-level variable " + p.Global.Name() + " (outside the verified subset)")
	case PObj:
		if v.P != nil && (v.P.Kind != PObj || len(v.P.Path) != 0) {
			panic("interior pointer stored into the heap (outside the verified subset)")
		}
		for i, c := range comps {
			name, srt := leafRegion(p, c)
			st.setRegion(name, Store(st.region(name, srt), p.Ref, v.C[i]))
		}
	case PElem:
		for i, c := range comps {
			name, srt := leafRegion(p, c)
			r := st.region(name, srt)
			st.setRegion(name, Store(r, p.Ref, Store(Select(r, p.Ref), p.Idx, v.C[i])))
		}
	}
}

// elemArr gives the content array (component c) of the backing store ref.
func elemArr(st *State, elemT types.Type, c Comp, ref *Term) *Term {
	name := elemsBase(elemT) + c.Suffix
	return Select(st.region(name, SArr(SArr(c.Sort))), ref)
}

func setElemArr(st *State, elemT types.Type, c Comp, ref, arr *Term) {
	name := elemsBase(elemT) + c.Suffix
	st.setRegion(name, Store(st.region(name, SArr(SArr(c.Sort))), ref, arr))
}

// entryHeapFacts instantiates, at the indices of this load, the invariant of
// the entry heap: every reference stored in memory at function entry predates
// the entry clock (so it differs from everything allocated during the run).
func (x *Exec) entryHeapFacts(st *State, p *Ptr, comps []Comp) {
	if p.Kind != PObj && p.Kind != PElem {
		return
	}
	for _, c := range comps {
		if !(c.Sort == SInt && c.T == nil && !hasAnySuffix(c.Suffix, ".off", ".len", ".cap")) {
			continue
		}
		name, srt := leafRegion(p, c)
		cur := st.region(name, srt)
		_ = cur
		base := Var(name, srt)
		var v *Term
		if p.Kind == PObj {
			v = Select(base, p.Ref)
		} else {
			v = Select(Select(base, p.Ref), p.Idx)
		}
		if v.open {
			// inside a quantified spec: the invariant of the entry region as an axiom
			r, i := BVar("r?eh", SInt), BVar("i?eh", SInt)
			c0 := Var(clockName, SInt)
			if p.Kind == PObj {
				x.assumeNeed(name, Forall([]*Term{r}, Implies(Le(r, c0), Le(Select(base, r), c0)), Select(base, r)))
			} else {
				x.assumeNeed(name, Forall([]*Term{r, i}, Implies(Le(r, c0), Le(Select(Select(base, r), i), c0)), Select(Select(base, r), i)))
			}
			continue
		}
		// only objects that existed at entry (fresh objects of callees also live in the unchanged region)
		x.assumeTrue(Implies(Le(p.Ref, Var(clockName, SInt)), Le(v, Var(clockName, SInt))))
	}
}
