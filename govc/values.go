package main

// Values: every Go value is a list of primitive SMT components (Int, Bool,
// Array Int Int) obtained by flattening its type; pointers into objects are
// kept at engine level (Ptr) so that interior pointers never reach the solver.

import (
	"fmt"
	"go/types"
	"math/big"
	"strings"

	"golang.org/x/tools/go/ssa"
)

type Comp struct {
	Suffix string
	Sort   *Sort
	T      types.Type // Go type of a leaf integer/bool component (for ranges), else nil
	Iface  bool       // an interface handle: boxed values have negative handles
}

type PtrKind int

const (
	PNone  PtrKind = iota
	PLocal         // a non-escaping Alloc cell (symbolic store)
	PObj           // heap object: Ref, RootT, Path
	PElem          // element Idx of the backing array Ref of element type RootT, then Path
	PGlobal        // package-level variable
)

type Ptr struct {
	Kind   PtrKind
	Alloc  *ssa.Alloc
	Global *ssa.Global
	Ref    *Term
	Idx    *Term
	RootT  types.Type // type of the root object (PObj) or element type (PElem) or alloc elem type
	Path   []int      // struct field path below the root
}

type Value struct {
	T types.Type
	C []*Term
	P *Ptr
}

func (v Value) One() *Term {
	if len(v.C) != 1 {
		panic(fmt.Sprintf("value of type %v has %d components, want 1", v.T, len(v.C)))
	}
	return v.C[0]
}

var sArrII = SArr(SInt)

func typeName(t types.Type) string {
	return ifaceName(types.TypeString(t, func(p *types.Package) string { return p.Name() }))
}

func ifaceName(s string) string {
	return strings.NewReplacer(" ", "_", "{", "(", "}", ")", ";", ",", "\"", "'").Replace(s)
}

var flatCache = map[types.Type][]Comp{}

// Flatten lists the primitive components of a Go type.
func Flatten(t types.Type) []Comp {
	if c, ok := flatCache[t]; ok {
		return c
	}
	var out []Comp
	switch u := t.Underlying().(type) {
	case *types.Basic:
		switch {
		case u.Info()&types.IsBoolean != 0:
			out = []Comp{{"", SBool, t, false}}
		case u.Info()&types.IsInteger != 0:
			out = []Comp{{"", SInt, t, false}}
		case u.Info()&types.IsString != 0:
			out = []Comp{{".arr", sArrII, nil, false}, {".off", SInt, nil, false}, {".len", SInt, nil, false}}
		case u.Kind() == types.UnsafePointer || u.Kind() == types.UntypedNil:
			out = []Comp{{"", SInt, nil, false}}
		case u.Info()&types.IsFloat != 0:
			out = []Comp{{"", SInt, nil, false}} // opaque
		default:
			panic("Flatten: unsupported basic type " + t.String())
		}
	case *types.Interface:
		out = []Comp{{"", SInt, nil, true}}
	case *types.Pointer, *types.Chan, *types.Map, *types.Signature:
		out = []Comp{{"", SInt, nil, false}}
	case *types.Slice:
		out = []Comp{{".ref", SInt, nil, false}, {".off", SInt, nil, false}, {".len", SInt, nil, false}, {".cap", SInt, nil, false}}
	case *types.Struct:
		for i := 0; i < u.NumFields(); i++ {
			f := u.Field(i)
			for _, c := range Flatten(f.Type()) {
				out = append(out, Comp{"." + f.Name() + c.Suffix, c.Sort, c.T, c.Iface})
			}
		}
	case *types.Tuple:
		for i := 0; i < u.Len(); i++ {
			for _, c := range Flatten(u.At(i).Type()) {
				out = append(out, Comp{fmt.Sprintf(".%d%s", i, c.Suffix), c.Sort, c.T, c.Iface})
			}
		}
	case *types.Array:
		// arrays live behind references only; as a value: one content array per element component
		for _, c := range Flatten(u.Elem()) {
			out = append(out, Comp{".elems" + c.Suffix, SArr(c.Sort), nil, false})
		}
	default:
		panic("Flatten: unsupported type " + t.String())
	}
	flatCache[t] = out
	return out
}

// compRange gives the component index range of the field path within t.
func compRange(t types.Type, path []int) (int, int, types.Type) {
	start := 0
	for _, fi := range path {
		st := t.Underlying().(*types.Struct)
		for i := 0; i < fi; i++ {
			start += len(Flatten(st.Field(i).Type()))
		}
		t = st.Field(fi).Type()
	}
	return start, start + len(Flatten(t)), t
}

func pathName(t types.Type, path []int) string {
	s := ""
	for _, fi := range path {
		st := t.Underlying().(*types.Struct)
		s += "." + st.Field(fi).Name()
		t = st.Field(fi).Type()
	}
	return s
}

// intRange returns the inclusive range of an integer type (64-bit platform).
func intRange(t types.Type) (lo, hi *big.Int, ok bool) {
	b, isB := t.Underlying().(*types.Basic)
	if !isB || b.Info()&types.IsInteger == 0 {
		return nil, nil, false
	}
	bits, signed := 64, true
	switch b.Kind() {
	case types.Int8:
		bits = 8
	case types.Int16:
		bits = 16
	case types.Int32:
		bits = 32
	case types.Int64, types.Int:
		bits = 64
	case types.Uint8:
		bits, signed = 8, false
	case types.Uint16:
		bits, signed = 16, false
	case types.Uint32:
		bits, signed = 32, false
	case types.Uint64, types.Uint, types.Uintptr:
		bits, signed = 64, false
	case types.UntypedInt, types.UntypedRune:
		return nil, nil, false
	}
	if signed {
		lo = new(big.Int).Neg(Pow2(bits - 1))
		hi = new(big.Int).Sub(Pow2(bits-1), big.NewInt(1))
	} else {
		lo = big.NewInt(0)
		hi = new(big.Int).Sub(Pow2(bits), big.NewInt(1))
	}
	return lo, hi, true
}

// Wrap reduces a mathematical integer to the range of Go type t.
func Wrap(x *Term, t types.Type) *Term {
	lo, hi, ok := intRange(t)
	if !ok {
		return x
	}
	if x.IsInt() && x.Int.Cmp(lo) >= 0 && x.Int.Cmp(hi) <= 0 {
		return x
	}
	m := new(big.Int).Sub(hi, lo)
	m.Add(m, big.NewInt(1))
	if lo.Sign() == 0 {
		return Mod(x, NumB(m))
	}
	// signed: ((x - lo) mod m) + lo
	return Add(Mod(Sub(x, NumB(lo)), NumB(m)), NumB(lo))
}

// RangeFact: lo <= x <= hi for integer type t (nil if t is not an integer).
func RangeFact(x *Term, t types.Type) *Term {
	lo, hi, ok := intRange(t)
	if !ok {
		return nil
	}
	return And(Le(NumB(lo), x), Le(x, NumB(hi)))
}

// No slice, string or channel buffer holds more than 2^48 elements (the address space of the supported
// platforms is smaller); sums of a few lengths therefore do not overflow int. Listed as an assumption.
const maxLen = int64(1) << 48

var stdSizes = types.SizesFor("gc", "amd64")

// WFValue: type invariants of a freshly introduced symbolic value.
func WFValue(v Value) *Term {
	var fs []*Term
	comps := Flatten(v.T)
	for i, c := range comps {
		if c.T != nil {
			if f := RangeFact(v.C[i], c.T); f != nil {
				fs = append(fs, f)
			}
		}
		switch {
		case strings.HasSuffix(c.Suffix, ".len") && i+1 < len(comps) && strings.HasSuffix(comps[i+1].Suffix, ".cap"):
			// slice: ref, off, len, cap
			ref, off, ln, cp := v.C[i-2], v.C[i-1], v.C[i], v.C[i+1]
			bound := maxLen
			if sl, ok := v.T.Underlying().(*types.Slice); ok && len(comps) == 4 {
				// the backing array fits the address space: at most 2^48 bytes
				if sz := stdSizes.Sizeof(sl.Elem()); sz > 1 {
					bound = maxLen / sz
				}
			}
			fs = append(fs, Le(Num(0), ref), Le(Num(0), off), Le(Num(0), ln), Le(ln, cp), Le(ln, Num(bound)), Le(Num(0), cp), Le(cp, Num(bound)), Le(off, Num(maxLen)),
				Implies(Eq(ref, Num(0)), Eq(cp, Num(0))))
		case strings.HasSuffix(c.Suffix, ".len") && i >= 2 && strings.HasSuffix(comps[i-1].Suffix, ".off") && strings.HasSuffix(comps[i-2].Suffix, ".arr"):
			fs = append(fs, Le(Num(0), v.C[i-1]), Le(Num(0), v.C[i]), Le(v.C[i], Num(maxLen)), Le(v.C[i-1], Num(maxLen)))
		case c.T == nil && c.Sort == SInt && c.Suffix != ".off" && !strings.HasSuffix(c.Suffix, ".off") && !strings.HasSuffix(c.Suffix, ".cap") && !strings.HasSuffix(c.Suffix, ".len"):
			// refs are non-negative (interface handles of boxed values are negative)
			if !c.Iface {
				fs = append(fs, Le(Num(0), v.C[i]))
			}
		}
	}
	return And(fs...)
}

// FreshValue makes a symbolic value of type t.
func FreshValue(prefix string, t types.Type) Value {
	comps := Flatten(t)
	v := Value{T: t, C: make([]*Term, len(comps))}
	freshSeq[prefix]++
	n := freshSeq[prefix]
	for i, c := range comps {
		v.C[i] = Var(fmt.Sprintf("%s!%d%s", prefix, n, c.Suffix), c.Sort)
	}
	return v
}

// ZeroValue of type t.
func ZeroValue(t types.Type) Value {
	comps := Flatten(t)
	v := Value{T: t, C: make([]*Term, len(comps))}
	for i, c := range comps {
		v.C[i] = zeroOf(c.Sort)
	}
	return v
}

func zeroOf(s *Sort) *Term {
	switch s.Kind {
	case 0:
		return Num(0)
	case 1:
		return TFalse
	default:
		return ConstArr(s, zeroOf(s.Elem))
	}
}

func isPointer(t types.Type) bool {
	_, ok := t.Underlying().(*types.Pointer)
	return ok
}

func deref(t types.Type) types.Type {
	return t.Underlying().(*types.Pointer).Elem()
}

// regionBase names the heap region family of a root object type.
func regionBase(t types.Type) string {
	if n, ok := t.(*types.Named); ok {
		if _, isStruct := n.Underlying().(*types.Struct); isStruct {
			p := ""
			if n.Obj().Pkg() != nil {
				p = n.Obj().Pkg().Name() + "."
			}
			return p + n.Obj().Name()
		}
	}
	if _, ok := t.Underlying().(*types.Struct); ok {
		return "struct." + typeName(t)
	}
	return "cell." + typeName(t)
}

func elemsBase(t types.Type) string { return "elems." + typeName(t) }

func valueEq(a, b Value) *Term {
	if len(a.C) != len(b.C) {
		panic("valueEq arity")
	}
	var fs []*Term
	for i := range a.C {
		fs = append(fs, Eq(a.C[i], b.C[i]))
	}
	return And(fs...)
}

func valueIte(c *Term, a, b Value) Value {
	if len(a.C) != len(b.C) {
		panic(fmt.Sprintf("valueIte arity %v/%d vs %v/%d", a.T, len(a.C), b.T, len(b.C)))
	}
	out := Value{T: a.T, C: make([]*Term, len(a.C))}
	for i := range a.C {
		out.C[i] = Ite(c, a.C[i], b.C[i])
	}
	if a.P != nil || b.P != nil {
		if a.P != nil && b.P != nil && samePtr(a.P, b.P) {
			out.P = a.P
		} else if c.IsTrue() {
			out.P = a.P
		} else if c.IsFalse() {
			out.P = b.P
		} else {
			panic("merge of distinct interior pointers (outside the verified subset)")
		}
	}
	return out
}

func samePtr(a, b *Ptr) bool {
	if a.Kind != b.Kind || a.Alloc != b.Alloc || a.Global != b.Global || a.Ref != b.Ref || a.Idx != b.Idx || len(a.Path) != len(b.Path) {
		return false
	}
	for i := range a.Path {
		if a.Path[i] != b.Path[i] {
			return false
		}
	}
	return true
}
