package main

// Symbolic execution of one function over the loop-cut (and unrolled) CFG,
// merging states at joins, producing named obligations.

import (
	"fmt"
	"os"
	"go/token"
	"go/types"
	"sort"
	"strings"

	"golang.org/x/tools/go/ssa"
)

type Assumption struct {
	PC   *Term
	Fact *Term
	Why  string
	Need string // included only when this symbol is in the query's cone
	Node *node  // top-level node at which a path-conditional fact arose (nil: global)
	Label string // id of the body assertion that established the fact
}

type Obligation struct {
	Name    string
	Kind    string
	Func    string
	Props   []string
	PC      *Term
	Goal    *Term
	NAssume int
	Src     string
	Text    string
	Exec    *Exec
	Node    *node // top-level node of the obligation (nil: after the body)
	// results
	Res      SolveResult
	smtText  string
	relaxed  bool // quantified assumptions dropped (model search only)
	near     bool // only quantified assumptions about values the goal mentions
	lemmas   bool // of the quantified assumptions only those named by the clause's by= hints
	By       []string
	smtQF, smtNear, smtLemmas string
	qfModel  string
	Wall     float64 // seconds in the discharger, all stages
	RelaxedModel bool
	Slow     bool
	Reveal   []string
	FileID   int
	Vacuous  bool
	IsCanary bool
}

var debugTrace = os.Getenv("GOVC_TRACE") != ""

type EngineError struct{ Msg string }

func (e *EngineError) Error() string { return e.Msg }

func fail(format string, a ...any) { panic(&EngineError{fmt.Sprintf(format, a...)}) }

type Exec struct {
	P     *Program
	S     *Specs
	Key   string
	Fn    *ssa.Function
	C     *Contract
	Props []string
	curNode *node // top-level node being executed
	uncapturedVals map[string]Value
	freeAtCall map[string]Value // captured variables of the closure whose contract is being applied

	assumes  []Assumption
	assumeIx map[[2]*Term]bool
	obls     []*Obligation
	kindSeq  map[string]int
	inputs   []*Term
	notes    []string // abstractions used (for evidence)
	depth    int
	sweepOnly bool
	closures   map[*Term]*closure
	usedFuncs  map[string]bool
	entryState *State
	sentinels  map[string]bool
	boxed      map[*Term]Value
	reveal     map[string]bool
	closeSites map[string]bool
	hitSites   map[string]bool
	topRets    []retState
}

func NewExec(P *Program, S *Specs, key string) *Exec {
	return &Exec{P: P, S: S, Key: key, Fn: P.Funcs[key], C: S.Contracts[key], assumeIx: map[[2]*Term]bool{}, kindSeq: map[string]int{}}
}

func (x *Exec) note(s string) {
	for _, n := range x.notes {
		if n == s {
			return
		}
	}
	x.notes = append(x.notes, s)
}

func (x *Exec) assume(pc, fact *Term, why string) {
	if fact == nil || fact.IsTrue() {
		return
	}
	if fact.open && fact.Op != "forall" {
		return // mentions a bound variable of an enclosing spec quantifier
	}
	k := [2]*Term{pc, fact}
	if x.assumeIx[k] {
		return
	}
	x.assumeIx[k] = true
	if pc.IsTrue() && os.Getenv("GOVC_NOBOUNDS") == "" {
		noteBounds(fact)
	}
	x.assumes = append(x.assumes, Assumption{pc, fact, why, "", x.nodeFor(pc), ""})
}

// nodeFor: facts under a path condition belong to the node being executed; an
// obligation can only depend on such facts from its own ancestors in the
// loop-cut graph (unconditional facts may be memoised and stay global).
func (x *Exec) nodeFor(pc *Term) *node {
	if pc == nil || pc.IsTrue() {
		return nil
	}
	return x.curNode
}

// ancestorOf: a == n or a reaches n.
func ancestorOf(a, n *node) bool {
	if a == n {
		return true
	}
	if n.anc == nil {
		n.anc = map[*node]bool{}
		var walk func(m *node)
		walk = func(m *node) {
			for _, e := range m.Preds {
				if !n.anc[e.From] {
					n.anc[e.From] = true
					walk(e.From)
				}
			}
		}
		walk(n)
	}
	return n.anc[a]
}

// assumeLabelled: a fact established by a body assertion with an id (usable in by= hints).
func (x *Exec) assumeLabelled(pc, fact *Term, why, label string) {
	n := len(x.assumes)
	x.assume(pc, fact, why)
	if len(x.assumes) > n {
		x.assumes[len(x.assumes)-1].Label = label
	}
}

func (x *Exec) assumeTrue(fact *Term) { x.assume(TTrue, fact, "type") }

func (x *Exec) assumeNeed(need string, fact *Term) { x.assumeNeedPC(TTrue, need, fact) }

// assumeNeedPC: a fact that holds on the paths satisfying pc (facts about
// path-specific fresh objects must not leak to other paths, where the same
// numeric handle may denote another object).
func (x *Exec) assumeNeedPC(pc *Term, need string, fact *Term) {
	k := [2]*Term{pc, fact}
	if x.assumeIx[k] {
		return
	}
	x.assumeIx[k] = true
	x.assumes = append(x.assumes, Assumption{pc, fact, "axiom", need, x.nodeFor(pc), ""})
}

func (x *Exec) oblige(kind string, props []string, pc, goal *Term, pos token.Pos, text string) *Obligation {
	x.kindSeq[kind]++
	name := fmt.Sprintf("%s/%s#%d", x.Key, kind, x.kindSeq[kind])
	src := ""
	if pos.IsValid() {
		p := x.P.Fset.Position(pos)
		src = fmt.Sprintf("%s:%d", shortFile(p.Filename), p.Line)
	}
	if props == nil {
		props = x.Props
	}
	o := &Obligation{Name: name, Kind: kind, Func: x.Key, Props: props, PC: pc, Goal: goal, NAssume: len(x.assumes), Src: src, Text: text, Exec: x, Node: x.curNode}
	x.obls = append(x.obls, o)
	return o
}

func shortFile(f string) string {
	if i := strings.Index(f, "/repo/"); i >= 0 {
		return f[i+6:]
	}
	return f
}

// ---- node graph ----

type loopInfo struct {
	Head    *ssa.BasicBlock
	Body    map[*ssa.BasicBlock]bool
	Ordinal int
	Spec    *LoopSpec
	Parent  *loopInfo
}

type ctxEntry struct {
	L    *loopInfo
	Iter int // 0 for invariant loops
}

type node struct {
	B      *ssa.BasicBlock
	Ctx    []ctxEntry
	Key    string
	Preds  []*edge
	Succs  []*edge
	Sink   string // "" | "backinv" | "unwind"
	Loop   *loopInfo // for sinks and invariant headers
	InvHead bool
	order  int
	in     *State
	outs   []*State // per successor index
	anc    map[*node]bool
}

type edge struct {
	From, To *node
	Idx      int
}

func ctxKey(c []ctxEntry) string {
	var b strings.Builder
	for _, e := range c {
		fmt.Fprintf(&b, "L%d#%d/", e.L.Ordinal, e.Iter)
	}
	return b.String()
}

type frame struct {
	x      *Exec
	fn     *ssa.Function
	c      *Contract
	loops  []*loopInfo
	headOf map[*ssa.BasicBlock]*loopInfo
	nodes  map[string]*node
	order  []*node
	regs   map[string]Value // key: value name + "@" + ctx key
	rets   []retState
	params []Value
	free   []Value
	inlineDepth int
	callSeq map[string]int
	sites   map[string][]token.Pos // per site kind: positions in source order
	defCtx map[ssa.Value][]*loopInfo
	loopLets map[string]map[string]Value
	loopVariants map[string][]*Term // values of the decreases expressions at the (arbitrary) iteration head
	loopHeads map[string]*State
	closable  bool
}

type retState struct {
	st  *State
	res []Value
	pos token.Pos
	n   *node
}

// findLoops computes natural loops from back edges (target dominates source).
func findLoops(fn *ssa.Function) []*loopInfo {
	byHead := map[*ssa.BasicBlock]*loopInfo{}
	for _, b := range fn.Blocks {
		for _, s := range b.Succs {
			if s.Dominates(b) {
				l := byHead[s]
				if l == nil {
					l = &loopInfo{Head: s, Body: map[*ssa.BasicBlock]bool{s: true}}
					byHead[s] = l
				}
				// add all blocks that reach b without passing s
				var stack []*ssa.BasicBlock
				if !l.Body[b] {
					l.Body[b] = true
					stack = append(stack, b)
				}
				for len(stack) > 0 {
					n := stack[len(stack)-1]
					stack = stack[:len(stack)-1]
					for _, p := range n.Preds {
						if !l.Body[p] {
							l.Body[p] = true
							stack = append(stack, p)
						}
					}
				}
			}
		}
	}
	var ls []*loopInfo
	for _, l := range byHead {
		ls = append(ls, l)
	}
	sort.Slice(ls, func(i, j int) bool { return loopPos(ls[i]) < loopPos(ls[j]) })
	for i, l := range ls {
		l.Ordinal = i + 1
	}
	// nesting
	for _, l := range ls {
		for _, m := range ls {
			if m != l && m.Body[l.Head] && len(m.Body) > len(l.Body) {
				if l.Parent == nil || len(m.Body) < len(l.Parent.Body) {
					l.Parent = m
				}
			}
		}
	}
	return ls
}

// loopPos orders loops by the smallest block index in the body (source order).
func loopPos(l *loopInfo) int {
	m := 1 << 30
	for b := range l.Body {
		if b.Index < m {
			m = b.Index
		}
	}
	return m
}

func (f *frame) loopsOf(b *ssa.BasicBlock) []*loopInfo {
	var ls []*loopInfo
	for _, l := range f.loops {
		if l.Body[b] {
			ls = append(ls, l)
		}
	}
	sort.Slice(ls, func(i, j int) bool { return len(ls[i].Body) > len(ls[j].Body) })
	return ls
}

func (f *frame) getNode(b *ssa.BasicBlock, ctx []ctxEntry) *node {
	k := fmt.Sprintf("%d@%s", b.Index, ctxKey(ctx))
	if n, ok := f.nodes[k]; ok {
		return n
	}
	n := &node{B: b, Ctx: ctx, Key: k}
	f.nodes[k] = n
	if l := f.headOf[b]; l != nil && (l.Spec == nil || l.Spec.Unroll == 0) {
		if l.Spec == nil {
			l.Spec = &LoopSpec{}
		}
		n.InvHead = true
		n.Loop = l
	}
	for i, s := range b.Succs {
		var to *node
		if l := f.headOf[s]; l != nil && l.Body[b] {
			// back edge
			ctx := ctx
			cur := ctx[len(ctx)-1]
			for cur.L != l {
				// leaving inner loops through a back edge of an outer loop
				ctx = ctx[:len(ctx)-1]
				cur = ctx[len(ctx)-1]
			}
			if l.Spec == nil {
				l.Spec = &LoopSpec{} // no annotation: cut with the invariant "true" (havoc only)
			}
			if l.Spec.Unroll > 0 {
				if cur.Iter < l.Spec.Unroll {
					nctx := append(append([]ctxEntry{}, ctx[:len(ctx)-1]...), ctxEntry{l, cur.Iter + 1})
					to = f.getNode(s, nctx)
				} else {
					to = &node{Sink: "unwind", Loop: l, Key: fmt.Sprintf("unwind%d@%s#%d", l.Ordinal, k, i), Ctx: ctx}
					f.nodes[to.Key] = to
				}
			} else {
				to = &node{Sink: "backinv", Loop: l, Key: fmt.Sprintf("backinv%d@%s#%d", l.Ordinal, k, i), Ctx: ctx}
				f.nodes[to.Key] = to
			}
		} else {
			// adjust context: pop loops not containing s, push loop if s is a header
			nctx := append([]ctxEntry{}, ctx...)
			for len(nctx) > 0 && !nctx[len(nctx)-1].L.Body[s] {
				nctx = nctx[:len(nctx)-1]
			}
			if l := f.headOf[s]; l != nil {
				it := 0
				if l.Spec != nil && l.Spec.Unroll > 0 {
					it = 1
				}
				nctx = append(nctx, ctxEntry{l, it})
			}
			to = f.getNode(s, nctx)
		}
		e := &edge{From: n, To: to, Idx: i}
		n.Succs = append(n.Succs, e)
		to.Preds = append(to.Preds, e)
	}
	return n
}

func (f *frame) topo(entry *node) {
	seen := map[*node]bool{}
	var post []*node
	var dfs func(n *node)
	dfs = func(n *node) {
		seen[n] = true
		for _, e := range n.Succs {
			if !seen[e.To] {
				dfs(e.To)
			}
		}
		post = append(post, n)
	}
	dfs(entry)
	for i := len(post) - 1; i >= 0; i-- {
		post[i].order = len(f.order)
		f.order = append(f.order, post[i])
	}
}

// ---- registers ----

func (f *frame) regKey(v ssa.Value, ctx []ctxEntry) string {
	// restrict ctx to loops containing the defining block
	var b *ssa.BasicBlock
	if in, ok := v.(ssa.Instruction); ok {
		b = in.Block()
	}
	k := ""
	if b != nil {
		for _, e := range ctx {
			if e.L.Body[b] {
				k += fmt.Sprintf("L%d#%d/", e.L.Ordinal, e.Iter)
			} else {
				break
			}
		}
	}
	return fmt.Sprintf("%p@%s", v, k)
}

func (f *frame) setReg(v ssa.Value, ctx []ctxEntry, val Value) {
	f.regs[f.regKey(v, ctx)] = val
}

func (f *frame) get(v ssa.Value, n *node, st *State) Value {
	x := f.x
	switch c := v.(type) {
	case *ssa.Const:
		return x.constValue(c)
	case *ssa.Parameter:
		for i, p := range f.fn.Params {
			if p == c {
				return f.params[i]
			}
		}
	case *ssa.FreeVar:
		for i, p := range f.fn.FreeVars {
			if p == c {
				return f.free[i]
			}
		}
	case *ssa.Global:
		return Value{T: c.Type(), P: &Ptr{Kind: PGlobal, Global: c, RootT: deref(c.Type())}}
	case *ssa.Function:
		return Value{T: c.Type(), C: []*Term{x.funcHandle(c)}}
	case *ssa.Builtin:
		fail("builtin used as value")
	}
	if val, ok := f.regs[f.regKey(v, n.Ctx)]; ok {
		return val
	}
	// defined inside a loop, used on an exit path: any instance (they must agree)
	if a, ok := v.(*ssa.Alloc); ok && !a.Heap {
		if _, isArr := deref(a.Type()).Underlying().(*types.Array); !isArr {
			return Value{T: a.Type(), P: &Ptr{Kind: PLocal, Alloc: a, RootT: deref(a.Type())}}
		}
	}
	prefix := fmt.Sprintf("%p@", v)
	var found *Value
	for k, val := range f.regs {
		if strings.HasPrefix(k, prefix) {
			val := val
			if found != nil && !sameValue(*found, val) {
				fail("%s: register %s defined in several loop iterations is used after the loop (outside the verified subset)", FuncKey(f.fn), v.Name())
			}
			found = &val
		}
	}
	if found != nil {
		return *found
	}
	fail("%s: register %s (%T) read before definition in block %d", FuncKey(f.fn), v.Name(), v, n.B.Index)
	return Value{}
}

func (x *Exec) funcHandle(fn *ssa.Function) *Term {
	return Var("func."+FuncKey(fn), SInt)
}

// ---- running a function body ----

// runBody executes fn from the given state and returns the merged exit state
// with the result values (nil state when no return is reachable).
func (x *Exec) runBody(fn *ssa.Function, c *Contract, params, free []Value, st *State, inlineDepth int) (*State, []Value) {
	if fn.Blocks == nil {
		fail("function %s has no body", FuncKey(fn))
	}
	if c == nil && inlineDepth > 0 && x.C != nil {
		// an inlined callee without a contract of its own (deferred closures): the
		// verified function's call-site assertions and channel rules apply inside it
		inh := map[string][]*Clause{}
		for k, v := range x.C.CallAsserts {
			if !strings.HasPrefix(k, "recv ") && !strings.HasPrefix(k, "send ") {
				inh[k] = v // only call-site assertions are inherited (send/recv ordinals are per function)
			}
		}
		c = &Contract{Key: FuncKey(fn), CallAsserts: inh, Loops: map[int]*LoopSpec{}, Props: map[string]bool{}, RecvInv: nil}
	}
	f := &frame{x: x, fn: fn, c: c, nodes: map[string]*node{}, regs: map[string]Value{}, params: params, free: free,
		headOf: map[*ssa.BasicBlock]*loopInfo{}, inlineDepth: inlineDepth, callSeq: map[string]int{}}
	f.loops = findLoops(fn)
	for _, l := range f.loops {
		f.headOf[l.Head] = l
		if c != nil {
			l.Spec = c.Loops[l.Ordinal]
		}
	}
	entry := f.getNode(fn.Blocks[0], nil)
	f.topo(entry)
	entry.in = st
	savedDefers := st.defers
	st.defers = nil
	for _, n := range f.order {
		f.runNode(n)
	}
	if len(f.rets) == 0 {
		return nil, nil
	}
	var sts []*State
	for _, r := range f.rets {
		sts = append(sts, r.st)
	}
	out := mergeStates(sts)
	nres := len(f.rets[0].res)
	res := make([]Value, nres)
	for i := 0; i < nres; i++ {
		cur := f.rets[len(f.rets)-1].res[i]
		for j := len(f.rets) - 2; j >= 0; j-- {
			cur = valueIte(f.rets[j].st.pc, f.rets[j].res[i], cur)
		}
		res[i] = cur
	}
	if inlineDepth == 0 {
		x.topRets = f.rets
		x.curNode = nil
	}
	out.defers = savedDefers
	// locals of the callee are dead
	for a := range out.locals {
		if a.Parent() == fn {
			delete(out.locals, a)
		}
	}
	return out, res
}

func (f *frame) runNode(n *node) {
	x := f.x
	if f.inlineDepth == 0 {
		x.curNode = n
	}
	// incoming state
	if n.in == nil {
		var ins []*State
		for _, e := range n.Preds {
			if e.From.outs == nil {
				continue
			}
			s := e.From.outs[e.Idx]
			if s != nil && !s.pc.IsFalse() {
				ins = append(ins, s)
			}
		}
		if len(ins) == 0 {
			return // unreachable
		}
		n.in = mergeStates(ins)
	}
	st := n.in
	switch n.Sink {
	case "unwind":
		x.oblige("unwind", nil, st.pc, TFalse, n.Loop.Head.Instrs[0].Pos(), fmt.Sprintf("loop %d exceeds %d iterations", n.Loop.Ordinal, n.Loop.Spec.Unroll))
		return
	case "backinv":
		f.checkInvariants(n.Loop, st, "inv-preserve", n)
		f.loopFrameCheck(n.Loop, st, n)
		f.checkVariants(n.Loop, st, n)
		return
	}
	if n.InvHead {
		f.bindLoopLets(n.Loop, st, n)
		f.checkInvariants(n.Loop, st, "inv-entry", n)
		f.havocLoop(n.Loop, st, n)
		f.assumeInvariants(n.Loop, st, n)
		f.bindVariants(n.Loop, st, n)
	}
	n.outs = make([]*State, len(n.B.Succs))
	for _, in := range n.B.Instrs {
		if st == nil || st.pc.IsFalse() {
			if debugTrace {
				fmt.Printf("TRACE %s block %d ctx %s: dead before %v\n", FuncKey(f.fn), n.B.Index, ctxKey(n.Ctx), in)
			}
			return
		}
		switch i := in.(type) {
		case *ssa.If:
			c := f.get(i.Cond, n, st).One()
			t := st.clone()
			t.pc = And(st.pc, c)
			e := st
			e.pc = And(st.pc, Not(c))
			n.outs[0], n.outs[1] = t, e
			return
		case *ssa.Jump:
			n.outs[0] = st
			return
		case *ssa.Return:
			var res []Value
			for _, r := range i.Results {
				res = append(res, f.get(r, n, st))
			}
			pos := i.Pos()
			if !pos.IsValid() {
				// the return instruction often has no position: use the closest earlier one in the block
				for k := len(n.B.Instrs) - 1; k >= 0; k-- {
					if p := n.B.Instrs[k].Pos(); p.IsValid() {
						pos = p
						break
					}
				}
			}
			f.rets = append(f.rets, retState{st, res, pos, n})
			return
		case *ssa.Panic:
			f.panicAt(i, n, st)
			return
		default:
			st = f.step(in, n, st)
		}
	}
}

func (f *frame) panicAt(i *ssa.Panic, n *node, st *State) {
	x := f.x
	// a panic is an obligation "unreachable" unless the contract specifies it
	if f.c != nil && len(f.c.Panics) > 0 {
		var conds []*Term
		for _, p := range f.c.Panics {
			sc := x.newSpecCtx(f, n, st, nil)
			conds = append(conds, sc.evalBool(p.Expr))
		}
		x.oblige("panic-spec", nil, st.pc, Or(conds...), i.Pos(), "panic only under the specified conditions")
		return
	}
	x.oblige("unreachable", nil, st.pc, TFalse, i.Pos(), "explicit panic must be unreachable")
}

func sameValue(a, b Value) bool {
	if len(a.C) != len(b.C) {
		return false
	}
	for i := range a.C {
		if a.C[i] != b.C[i] {
			return false
		}
	}
	if (a.P == nil) != (b.P == nil) {
		return false
	}
	return a.P == nil || samePtr(a.P, b.P)
}
