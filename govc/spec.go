package main

// Evaluation of specification expressions (Go expression syntax plus old,
// forall, exists, implies, ghost and spec functions) into terms.

import (
	"sort"
	"os"
	"fmt"
	"go/ast"
	"go/constant"
	"go/token"
	"go/types"
	"math/big"
	"strconv"
	"strings"

	"golang.org/x/tools/go/ssa"
)

var seq2Type = types.NewNamed(types.NewTypeName(token.NoPos, nil, "seq2", nil), types.Typ[types.UnsafePointer], nil)

func mSeq2(t *Term) Value { return Value{T: seq2Type, C: []*Term{t}} }

var (
	mathInt  = types.Typ[types.UntypedInt]
	mathBool = types.Typ[types.UntypedBool]
	seqType  = types.NewNamed(types.NewTypeName(token.NoPos, nil, "seq", nil), types.Typ[types.UnsafePointer], nil)
)

func mInt(t *Term) Value  { return Value{T: mathInt, C: []*Term{t}} }
func mBool(t *Term) Value { return Value{T: mathBool, C: []*Term{t}} }
func mSeq(t *Term) Value  { return Value{T: seqType, C: []*Term{t}} }

type specCtx struct {
	x     *Exec
	f     *frame
	n     *node
	pkg   *types.Package
	vars  map[string]Value
	st    *State
	old   *State
	entry map[string]Value // parameter values at function entry (for old(p) inside bodies)
	loop  *loopInfo        // the loop whose invariant is evaluated (disambiguates shadowed locals)
	body  bool             // names resolve to current local cells first
	anchor token.Pos
	bseq  *int
}

func (x *Exec) newSpecCtx(f *frame, n *node, st *State, old *State) *specCtx {
	sc := &specCtx{x: x, f: f, n: n, st: st, old: old, vars: map[string]Value{}, entry: map[string]Value{}, body: true}
	if f != nil {
		if f.fn.Pkg != nil {
			sc.pkg = f.fn.Pkg.Pkg
		}
		for i, p := range f.fn.Params {
			sc.entry[p.Name()] = f.params[i]
		}
		for i, p := range f.fn.FreeVars {
			sc.entry[p.Name()] = f.free[i]
		}
	}
	return sc
}

func (sc *specCtx) errf(e ast.Expr, format string, a ...any) {
	fail("spec %q: %s", exprString(e), fmt.Sprintf(format, a...))
}

func exprString(e ast.Expr) string {
	return types.ExprString(e)
}

func (sc *specCtx) evalBool(e ast.Expr) *Term {
	v := sc.eval(e)
	if len(v.C) != 1 || v.C[0].S != SBool {
		sc.errf(e, "not a boolean")
	}
	return v.C[0]
}

func (sc *specCtx) evalInt(e ast.Expr) *Term {
	v := sc.eval(e)
	if len(v.C) != 1 || v.C[0].S != SInt {
		sc.errf(e, "not an integer (type %v, %d comps)", v.T, len(v.C))
	}
	return v.C[0]
}

func isStringT(t types.Type) bool {
	b, ok := t.Underlying().(*types.Basic)
	return ok && b.Info()&types.IsString != 0
}

func (sc *specCtx) withState(st *State) *specCtx {
	c := *sc
	c.st = st
	return &c
}

func (sc *specCtx) lookupLocal(name string) (Value, bool) {
	if sc.f == nil || !sc.body {
		return Value{}, false
	}
	var best *ssa.Alloc
	for _, b := range sc.f.fn.Blocks {
		for _, in := range b.Instrs {
			a, ok := in.(*ssa.Alloc)
			if !ok || a.Comment != name {
				continue
			}
			if !a.Heap {
				if _, live := sc.st.locals[a]; !live {
					continue
				}
			}
			if best == nil {
				best = a
				continue
			}
			// a local assigned inside the annotated loop wins over a stale namesake
			if sc.loop != nil {
				sa, sb := storedIn(sc.loop, a), storedIn(sc.loop, best)
				if sa && !sb {
					best = a
					continue
				}
				if sb && !sa {
					continue
				}
			}
			// prefer the declaration closest before the anchor
			if sc.anchor.IsValid() {
				if a.Pos() <= sc.anchor && (best.Pos() > sc.anchor || a.Pos() > best.Pos()) {
					best = a
				}
			}
		}
	}
	if best == nil {
		return Value{}, false
	}
	et := deref(best.Type())
	if !best.Heap {
		return sc.st.locals[best], true
	}
	// heap-allocated local: its register holds the reference
	if sc.n != nil {
		if rv, ok := sc.f.regs[sc.f.regKey(best, sc.n.Ctx)]; ok {
			return sc.x.load(sc.st, sc.x.ptrOf(Value{T: best.Type(), C: rv.C, P: rv.P})), true
		}
	}
	_ = et
	return Value{}, false
}

// ghostIndex: the key under which ghost state is kept for a value: its reference; for an interface value
// that boxes a pointer (an *os.File passed as io.Writer, a *bufio.Reader as io.Reader), the pointer.
func (x *Exec) ghostIndex(v Value) *Term {
	if len(v.C) == 1 && v.T != nil {
		if _, isIface := v.T.Underlying().(*types.Interface); isIface {
			if pv, ok := x.boxed[v.C[0]]; ok && len(pv.C) == 1 {
				return pv.C[0]
			}
		}
	}
	return v.C[0]
}

func (sc *specCtx) uncaptured(name string) (Value, bool) {
	x := sc.x
	fn := x.Fn
	if sc.f != nil {
		fn = sc.f.fn
	}
	if fn == nil || fn.Parent() == nil {
		return Value{}, false
	}
	if v, ok := x.uncapturedVals[name]; ok {
		return v, true
	}
	for p := fn.Parent(); p != nil; p = p.Parent() {
		for _, b := range p.Blocks {
			for _, in := range b.Instrs {
				if a, ok := in.(*ssa.Alloc); ok && a.Comment == name {
					// as a captured variable would be: a pointer to its cell
					v := FreshValue("uncaptured."+name, a.Type())
					x.assumeTrue(WFValue(v))
					x.assumeTrue(And(Gt(v.C[0], Num(0)), Le(v.C[0], Var(clockName, SInt))))
					if x.uncapturedVals == nil {
						x.uncapturedVals = map[string]Value{}
					}
					x.uncapturedVals[name] = v
					x.note("the contract names " + name + " of the enclosing function, which this closure does not capture: treated as arbitrary")
					return v, true
				}
			}
		}
	}
	return Value{}, false
}

func (sc *specCtx) eval(e ast.Expr) Value {
	x := sc.x
	switch e := e.(type) {
	case *ast.ParenExpr:
		return sc.eval(e.X)
	case *ast.BasicLit:
		switch e.Kind {
		case token.INT:
			bi, ok := new(big.Int).SetString(e.Value, 0)
			if !ok {
				sc.errf(e, "bad integer")
			}
			return mInt(NumB(bi))
		case token.CHAR:
			r, _, _, err := strconv.UnquoteChar(e.Value[1:len(e.Value)-1], '\'')
			if err != nil {
				sc.errf(e, "bad char")
			}
			return mInt(Num(int64(r)))
		case token.STRING:
			s, err := strconv.Unquote(e.Value)
			if err != nil {
				sc.errf(e, "bad string")
			}
			return x.stringConst(s, types.Typ[types.String])
		}
	case *ast.Ident:
		switch e.Name {
		case "true":
			return mBool(TTrue)
		case "false":
			return mBool(TFalse)
		case "nil":
			return Value{T: types.Typ[types.UntypedNil], C: []*Term{Num(0)}}
		}
		if v, ok := sc.vars[e.Name]; ok {
			return v
		}
		if v, ok := sc.lookupLocal(e.Name); ok {
			return v
		}
		if v, ok := sc.entry[e.Name]; ok {
			return v
		}
		if sc.pkg != nil {
			if obj := sc.pkg.Scope().Lookup(e.Name); obj != nil {
				return sc.objValue(e, obj)
			}
		}
		// a closure's contract that names a variable of the enclosing function which the closure does not
		// capture: the closure cannot depend on it, so the clause must hold for every value of it
		if v, ok := sc.uncaptured(e.Name); ok {
			return v
		}
		if debugTrace && sc.st != nil {
			var live []string
			for a := range sc.st.locals {
				live = append(live, a.Comment)
			}
			sort.Strings(live)
			sc.errf(e, "unknown identifier (live locals: %s)", strings.Join(live, " "))
		}
		sc.errf(e, "unknown identifier")
	case *ast.UnaryExpr:
		switch e.Op {
		case token.NOT:
			return mBool(Not(sc.evalBool(e.X)))
		case token.SUB:
			return mInt(Neg(sc.evalInt(e.X)))
		}
	case *ast.StarExpr:
		v := sc.eval(e.X)
		return x.load(sc.st, x.ptrOf(v))
	case *ast.BinaryExpr:
		return sc.binary(e)
	case *ast.SelectorExpr:
		// package-qualified name?
		if id, ok := e.X.(*ast.Ident); ok {
			if _, isVar := sc.vars[id.Name]; !isVar {
				if _, isEntry := sc.entry[id.Name]; !isEntry {
					if _, isLocal := sc.lookupLocal(id.Name); !isLocal {
						if p := sc.findPkg(id.Name); p != nil {
							obj := p.Scope().Lookup(e.Sel.Name)
							if obj == nil {
								sc.errf(e, "no such package member")
							}
							return sc.objValue(e, obj)
						}
					}
				}
			}
		}
		base := sc.eval(e.X)
		return sc.selectField(e, base, e.Sel.Name)
	case *ast.IndexExpr:
		base := sc.eval(e.X)
		idx := sc.evalInt(e.Index)
		return sc.index(e, base, idx)
	case *ast.SliceExpr:
		base := sc.eval(e.X)
		var lo, hi *Term = Num(0), nil
		if e.Low != nil {
			lo = sc.evalInt(e.Low)
		}
		if e.High != nil {
			hi = sc.evalInt(e.High)
		}
		switch bt := base.T.Underlying().(type) {
		case *types.Pointer:
			if at, ok := bt.Elem().Underlying().(*types.Array); ok {
				if hi == nil {
					hi = Num(at.Len())
				}
				return Value{T: types.NewSlice(at.Elem()), C: []*Term{base.C[0], lo, Sub(hi, lo), Sub(Num(at.Len()), lo)}}
			}
		case *types.Slice:
			if hi == nil {
				hi = base.C[2]
			}
			return Value{T: base.T, C: []*Term{base.C[0], Add(base.C[1], lo), Sub(hi, lo), Sub(base.C[3], lo)}}
		case *types.Basic:
			if hi == nil {
				hi = base.C[2]
			}
			return Value{T: base.T, C: []*Term{base.C[0], Add(base.C[1], lo), Sub(hi, lo)}}
		}
		sc.errf(e, "slice of %v", base.T)
	case *ast.CallExpr:
		return sc.call(e)
	}
	sc.errf(e, "unsupported expression form %T", e)
	return Value{}
}

func (sc *specCtx) findPkg(name string) *types.Package {
	if sc.pkg == nil {
		return nil
	}
	if sc.pkg.Name() == name {
		return sc.pkg
	}
	for _, p := range sc.pkg.Imports() {
		if p.Name() == name {
			return p
		}
	}
	for _, pp := range sc.x.P.Pkgs {
		if pp.Pkg.Name() == name {
			return pp.Pkg
		}
	}
	return nil
}

func (sc *specCtx) objValue(e ast.Expr, obj types.Object) Value {
	x := sc.x
	switch o := obj.(type) {
	case *types.Const:
		switch o.Val().Kind() {
		case constant.Int:
			bi, _ := new(big.Int).SetString(o.Val().ExactString(), 10)
			return mInt(NumB(bi))
		case constant.Bool:
			return mBool(Bool(constant.BoolVal(o.Val())))
		case constant.String:
			return x.stringConst(constant.StringVal(o.Val()), types.Typ[types.String])
		}
	case *types.Var:
		for _, sp := range x.P.Prog.AllPackages() {
			if sp.Pkg == o.Pkg() {
				if g, ok := sp.Members[o.Name()].(*ssa.Global); ok {
					return x.globalValue(g, nil)
				}
			}
		}
	}
	sc.errf(e, "unsupported package member")
	return Value{}
}

func (sc *specCtx) selectField(e ast.Expr, base Value, name string) Value {
	x := sc.x
	t := base.T
	if pt, ok := t.Underlying().(*types.Pointer); ok {
		if _, pp := pt.Elem().Underlying().(*types.Pointer); pp {
			// a captured pointer variable (closure free variable): the variable's value
			base = x.load(sc.st, x.ptrOf(base))
			t = base.T
			pt = t.Underlying().(*types.Pointer)
		}
		// through pointer: find field path (with embedding)
		path := fieldPath(pt.Elem(), name)
		if path == nil {
			sc.errf(e, "no field %s in %v", name, pt.Elem())
		}
		p := x.ptrOf(base)
		np := *p
		np.Path = append(append([]int{}, p.Path...), path...)
		ft := pointee(&np)
		if _, isStruct := ft.Underlying().(*types.Struct); isStruct {
			// keep as pointer to the nested struct so that further selection works
			return Value{T: types.NewPointer(ft), P: &np}
		}
		return x.load(sc.st, &np)
	}
	if _, ok := t.Underlying().(*types.Struct); ok {
		path := fieldPath(t, name)
		if path == nil {
			sc.errf(e, "no field %s in %v", name, t)
		}
		lo, hi, ft := compRange(t, path)
		return Value{T: ft, C: base.C[lo:hi]}
	}
	sc.errf(e, "selector on %v", t)
	return Value{}
}

// fieldPath finds a (possibly promoted) field by name.
func fieldPath(t types.Type, name string) []int {
	st, ok := t.Underlying().(*types.Struct)
	if !ok {
		return nil
	}
	for i := 0; i < st.NumFields(); i++ {
		if st.Field(i).Name() == name {
			return []int{i}
		}
	}
	for i := 0; i < st.NumFields(); i++ {
		f := st.Field(i)
		if f.Embedded() {
			ft := f.Type()
			if _, isPtr := ft.Underlying().(*types.Pointer); isPtr {
				continue
			}
			if p := fieldPath(ft, name); p != nil {
				return append([]int{i}, p...)
			}
		}
	}
	return nil
}

func (sc *specCtx) index(e ast.Expr, base Value, idx *Term) Value {
	x := sc.x
	if base.T == seqType {
		return mInt(Select(base.C[0], idx))
	}
	if base.T == seq2Type {
		return mSeq(Select(base.C[0], idx))
	}
	switch bt := base.T.Underlying().(type) {
	case *types.Slice:
		p := &Ptr{Kind: PElem, Ref: base.C[0], Idx: Add(base.C[1], idx), RootT: bt.Elem()}
		return x.load(sc.st, p)
	case *types.Basic:
		if isStringT(base.T) {
			return mInt(Select(base.C[0], Add(base.C[1], idx)))
		}
	case *types.Pointer:
		if at, ok := bt.Elem().Underlying().(*types.Array); ok {
			p := x.ptrOf(base)
			return x.load(sc.st, &Ptr{Kind: PElem, Ref: p.Ref, Idx: idx, RootT: at.Elem()})
		}
	}
	sc.errf(e, "index on %v", base.T)
	return Value{}
}

func (sc *specCtx) binary(e *ast.BinaryExpr) Value {
	switch e.Op {
	case token.LAND:
		return mBool(And(sc.evalBool(e.X), sc.evalBool(e.Y)))
	case token.LOR:
		return mBool(Or(sc.evalBool(e.X), sc.evalBool(e.Y)))
	case token.EQL, token.NEQ:
		a, b := sc.eval(e.X), sc.eval(e.Y)
		var r *Term
		switch {
		case isStringT(a.T) && isStringT(b.T):
			r = sc.x.stringEq(a, b)
		case a.T == types.Typ[types.UntypedNil] || b.T == types.Typ[types.UntypedNil]:
			o := a
			if a.T == types.Typ[types.UntypedNil] {
				o = b
			}
			if o.P != nil {
				sc.errf(e, "nil comparison of an interior pointer")
			}
			r = Eq(o.C[0], Num(0)) // ref / handle component
		default:
			if len(a.C) != len(b.C) {
				sc.errf(e, "comparison of %v (%d) with %v (%d)", a.T, len(a.C), b.T, len(b.C))
			}
			r = valueEq(a, b)
		}
		if e.Op == token.NEQ {
			r = Not(r)
		}
		return mBool(r)
	}
	a, b := sc.evalInt(e.X), sc.evalInt(e.Y)
	switch e.Op {
	case token.LSS:
		return mBool(Lt(a, b))
	case token.LEQ:
		return mBool(Le(a, b))
	case token.GTR:
		return mBool(Gt(a, b))
	case token.GEQ:
		return mBool(Ge(a, b))
	case token.ADD:
		return mInt(Add(a, b))
	case token.SUB:
		return mInt(Sub(a, b))
	case token.MUL:
		return mInt(Mul(a, b))
	case token.QUO:
		return mInt(Div(a, b))
	case token.REM:
		return mInt(Mod(a, b))
	case token.AND:
		if b.IsInt() {
			return mInt(maskAnd(a, b.Int))
		}
	case token.OR:
		if b.IsInt() {
			return mInt(Sub(Add(a, b), maskAnd(a, b.Int)))
		}
	case token.SHR:
		if b.IsInt() {
			return mInt(Div(a, NumB(Pow2(int(b.Int.Int64())))))
		}
	case token.SHL:
		if b.IsInt() {
			return mInt(Mul(a, NumB(Pow2(int(b.Int.Int64())))))
		}
	case token.AND_NOT:
		if b.IsInt() {
			return mInt(Sub(a, maskAnd(a, b.Int)))
		}
	}
	sc.errf(e, "unsupported operator %s", e.Op)
	return Value{}
}

func (sc *specCtx) bound(name string) *Term {
	*sc.bseq++
	return BVar(fmt.Sprintf("%s?%d", name, *sc.bseq), SInt)
}

func (sc *specCtx) call(e *ast.CallExpr) Value {
	x := sc.x
	name := ""
	switch f := e.Fun.(type) {
	case *ast.Ident:
		name = f.Name
	case *ast.SelectorExpr:
		name = exprString(f)
	}
	arg := func(i int) ast.Expr {
		if i >= len(e.Args) {
			sc.errf(e, "missing argument %d", i)
		}
		return e.Args[i]
	}
	switch name {
	case "old":
		if sc.old == nil {
			sc.errf(e, "old() without pre-state")
		}
		c := *sc
		c.st = sc.old
		c.body = false
		c.vars = map[string]Value{}
		for k, v := range sc.vars {
			c.vars[k] = v
		}
		// parameters mean their entry values
		return c.eval(arg(0))
	case "implies":
		return mBool(Implies(sc.evalBool(arg(0)), sc.evalBool(arg(1))))
	case "iff":
		return mBool(Eq(sc.evalBool(arg(0)), sc.evalBool(arg(1))))
	case "ite":
		c := sc.evalBool(arg(0))
		a, b := sc.eval(arg(1)), sc.eval(arg(2))
		return valueIte(c, a, b)
	case "forall", "exists":
		id, ok := arg(0).(*ast.Ident)
		if !ok {
			sc.errf(e, "first argument must be an identifier")
		}
		if sc.bseq == nil {
			sc.bseq = new(int)
			*sc.bseq = boundCounter
			boundCounter += 1000
		}
		bv := sc.bound(id.Name)
		c := *sc
		c.vars = map[string]Value{}
		for k, v := range sc.vars {
			c.vars[k] = v
		}
		c.vars[id.Name] = mInt(bv)
		// an explicit last argument trigger(t1, t2, ...) names the instantiation triggers (alternatives)
		var trig []ast.Expr
		if n := len(e.Args); n >= 3 {
			if ce, ok := e.Args[n-1].(*ast.CallExpr); ok {
				if fid, ok := ce.Fun.(*ast.Ident); ok && fid.Name == "trigger" {
					trig = ce.Args
					ec := *e
					ec.Args = e.Args[:n-1]
					e = &ec
				}
			}
		}
		var body *Term
		if len(e.Args) == 4 {
			lo, hi := c.evalInt(arg(1)), c.evalInt(arg(2))
			rng := And(Le(lo, bv), Lt(bv, hi))
			if name == "forall" {
				body = Implies(rng, c.evalBool(arg(3)))
			} else {
				body = And(rng, c.evalBool(arg(3)))
			}
		} else {
			body = c.evalBool(arg(1))
		}
		if name == "forall" && len(trig) > 0 {
			var pats []*Term
			body, defs := abstractGround(body)
			for _, te := range trig {
				p, d := abstractGround(c.eval(te).C[0])
				pats = append(pats, p)
				defs = append(defs, d...)
			}
			for _, d := range defs {
				sc.x.assumeTrue(d)
			}
			return mBool(ForallAlt([]*Term{bv}, body, pats))
		}
		if name == "forall" {
			if autoTriggers {
				nb, defs := abstractGround(body)
				for _, d := range defs {
					sc.x.assumeTrue(d)
				}
				return mBool(ForallAuto(bv, nb))
			}
			return mBool(Forall([]*Term{bv}, body))
		}
		if autoTriggers {
			// as the negation of a universal, so that the triggers apply where the clause is refuted
			nb, defs := abstractGround(Not(body))
			for _, d := range defs {
				sc.x.assumeTrue(d)
			}
			return mBool(Not(ForallAuto(bv, nb)))
		}
		return mBool(Exists([]*Term{bv}, body))
	case "len":
		v := sc.eval(arg(0))
		switch v.T.Underlying().(type) {
		case *types.Slice:
			return mInt(v.C[2])
		case *types.Basic:
			if isStringT(v.T) {
				return mInt(v.C[2])
			}
		case *types.Chan:
			return mInt(x.chanLen(sc.st, v))
		case *types.Map:
			return mInt(Select(sc.st.region("map.len", sArrII), v.C[0]))
		}
		sc.errf(e, "len of %v", v.T)
	case "cap":
		v := sc.eval(arg(0))
		switch v.T.Underlying().(type) {
		case *types.Slice:
			return mInt(v.C[3])
		case *types.Chan:
			return mInt(Select(sc.st.region(chReg("cap", v.T), sArrII), v.C[0]))
		}
		sc.errf(e, "cap of %v", v.T)
	case "ref":
		return mInt(sc.eval(arg(0)).C[0])
	case "off":
		return mInt(sc.eval(arg(0)).C[1])
	case "arr":
		// content array of a byte slice / string
		v := sc.eval(arg(0))
		if isStringT(v.T) {
			return mSeq(v.C[0])
		}
		if sl, ok := v.T.Underlying().(*types.Slice); ok {
			return mSeq(elemArr(sc.st, sl.Elem(), Flatten(sl.Elem())[0], v.C[0]))
		}
		sc.errf(e, "arr of %v", v.T)
	case "fresh":
		v := sc.eval(arg(0))
		if sc.old == nil {
			sc.errf(e, "fresh() without pre-state")
		}
		return mBool(And(Lt(sc.old.clock(), v.C[0]), Le(v.C[0], sc.st.clock())))
	case "allocated":
		// the reference was allocated before now
		v := sc.evalInt(arg(0))
		return mBool(Le(v, sc.st.clock()))
	case "fresh_ref":
		// an integer reference allocated during the call
		v := sc.evalInt(arg(0))
		if sc.old == nil {
			sc.errf(e, "fresh_ref() without pre-state")
		}
		return mBool(And(Lt(sc.old.clock(), v), Le(v, sc.st.clock())))
	case "unchanged":
		c := *sc
		c.st = sc.old
		c.body = false
		a, b := sc.eval(arg(0)), c.eval(arg(0))
		return mBool(valueEq(a, b))
	case "Is":
		// errors.Is: a nil error matches only a nil target
		e0, t0 := sc.eval(arg(0)).C[0], sc.eval(arg(1)).C[0]
		return mBool(Ite(Eq(e0, Num(0)), Eq(t0, Num(0)), App("Is", SBool, e0, t0)))
	case "same":
		// same(a, b): the two values are identical component by component (for strings and slices: the same
		// backing array, offset and length, which is more than equal content)
		a, b := sc.eval(arg(0)), sc.eval(arg(1))
		if len(a.C) != len(b.C) {
			sc.errf(e, "same: %v and %v differ in shape", a.T, b.T)
		}
		return mBool(valueEq(a, b))
	case "is_":
		// the raw relation (for a first argument known to be non-nil, and for triggers)
		return mBool(App("Is", SBool, sc.eval(arg(0)).C[0], sc.eval(arg(1)).C[0]))
	case "bytes_eq":
		// bytes_eq(a, b): same length and content (slices or strings)
		a, b := sc.eval(arg(0)), sc.eval(arg(1))
		aa, ao, al := sc.seqParts(e, a)
		ba, bo, bl := sc.seqParts(e, b)
		return mBool(App("streq", SBool, aa, ao, al, ba, bo, bl))
	case "seq_eq":
		// seq_eq(a, ao, b, bo, n) over content arrays
		a, ao, b, bo, n := sc.eval(arg(0)).C[0], sc.evalInt(arg(1)), sc.eval(arg(2)).C[0], sc.evalInt(arg(3)), sc.evalInt(arg(4))
		return mBool(App("streq", SBool, a, ao, n, b, bo, n))
	case "flatlen", "flatat", "flatlenk", "flatatk", "fnvbufs":
		// flattened view of a [][]byte value: flatlen(v), flatat(v, j); the k-variants take the number of buffers
		v := sc.eval(arg(0))
		sl, ok := v.T.Underlying().(*types.Slice)
		if !ok {
			sc.errf(e, "flat view of %v", v.T)
		}
		inner := sl.Elem()
		ic := Flatten(inner) // ref off len cap
		refs := elemArr(sc.st, inner, ic[0], v.C[0])
		offs := elemArr(sc.st, inner, ic[1], v.C[0])
		lens := elemArr(sc.st, inner, ic[2], v.C[0])
		bt := inner.Underlying().(*types.Slice).Elem()
		E := sc.st.region(elemsBase(bt)+Flatten(bt)[0].Suffix, SArr(sArrII))
		k := v.C[2]
		ai := 1
		if name == "flatlenk" || name == "flatatk" {
			k = sc.evalInt(arg(1))
			ai = 2
		}
		if name == "fnvbufs" {
			// FNV state after hashing the first k buffers, starting from the offset basis
			x.usedFuncs["fnvbufs_"] = true
			return mInt(App("spec.fnvbufs_", SInt, Num(2166136261), E, refs, offs, lens, v.C[1], sc.evalInt(arg(1))))
		}
		x.usedFuncs["flatlen_"] = true
		if name == "flatlen" || name == "flatlenk" {
			fl := App("spec.flatlen_", SInt, lens, v.C[1], k)
			// ground instance of lemma/flatlen_nonneg (induction over k from the slice length facts)
			x.assumeTrue(Le(Num(0), fl))
			if name == "flatlenk" {
				// ground instance of lemma/flatlen_monotone: a prefix is no longer than the whole
				x.assumeTrue(Implies(And(Le(Num(0), k), Le(k, v.C[2])), Le(fl, App("spec.flatlen_", SInt, lens, v.C[1], v.C[2]))))
			}
			return mInt(fl)
		}
		x.usedFuncs["flatat_"] = true
		return mInt(App("spec.flatat_", SInt, E, refs, offs, lens, v.C[1], k, sc.evalInt(arg(ai))))
	case "visited":
		// visited(m, k): the running range over map m has yielded key k
		m := sc.eval(arg(0))
		k := sc.evalInt(arg(1))
		return mBool(Select(Select(sc.st.region("ghost.visited", SArr(SArr(SBool))), m.C[0]), k))
	case "strslen", "strslenk":
		// total length of the strings of a []string value (of its first k)
		v := sc.eval(arg(0))
		sl, ok := v.T.Underlying().(*types.Slice)
		if !ok || !isStringT(sl.Elem()) {
			sc.errf(e, "strslen of %v", v.T)
		}
		lens := elemArr(sc.st, sl.Elem(), Flatten(sl.Elem())[2], v.C[0])
		k := v.C[2]
		if name == "strslenk" {
			k = sc.evalInt(arg(1))
		}
		x.usedFuncs["flatlen_"] = true
		fl := App("spec.flatlen_", SInt, lens, v.C[1], k)
		// ground instance of lemma/flatlen_nonneg_step (lengths are not negative)
		x.assumeTrue(Le(Num(0), fl))
		return mInt(fl)
	case "closed":
		v := sc.eval(arg(0))
		return mBool(Select(sc.st.region(chReg("closed", v.T), SArr(SBool)), v.C[0]))
	case "qat":
		// i-th queued element of a channel
		v := sc.eval(arg(0))
		i := sc.evalInt(arg(1))
		et := chanElem(v.T)
		head := Select(sc.st.region(chReg("head", v.T), sArrII), v.C[0])
		comps := Flatten(et)
		out := Value{T: et, C: make([]*Term, len(comps))}
		for j, c := range comps {
			out.C[j] = Select(Select(sc.st.region("chan.q."+typeName(et)+c.Suffix, SArr(SArr(c.Sort))), v.C[0]), Add(head, i))
		}
		// queued references were allocated before now
		x.assumeTrue(x.refsBelowClock(sc.st, out))
		return out
	case "has", "at":
		// map membership and value
		m := sc.eval(arg(0))
		mt, ok := m.T.Underlying().(*types.Map)
		if !ok {
			sc.errf(e, "not a map: %v", m.T)
		}
		kv := sc.eval(arg(1))
		var k *Term
		if len(kv.C) == 1 {
			k = kv.C[0]
		} else {
			k = mapKeyTerm(x, kv)
		}
		hasR, vals, comps := mapRegions(mt)
		if name == "has" {
			return mBool(Select(Select(sc.st.region(hasR, SArr(SArr(SBool))), m.C[0]), k))
		}
		out := Value{T: mt.Elem(), C: make([]*Term, len(comps))}
		for j, c := range comps {
			// Go's lookup: the zero value when absent
			out.C[j] = Ite(Select(Select(sc.st.region(hasR, SArr(SArr(SBool))), m.C[0]), k), Select(Select(sc.st.region(vals[j], SArr(SArr(c.Sort))), m.C[0]), k), zeroOf(c.Sort))
		}
		return out
	case "sid":
		// identity of a string value (equal strings have equal ids)
		v := sc.eval(arg(0))
		return mInt(App("strid", SInt, v.C[0], v.C[1], v.C[2]))
	case "boxed":
		// boxed(T, v): the interface value holding v of concrete type T
		t := sc.typeExpr(arg(0))
		v := sc.eval(arg(1))
		v.T = t
		return x.makeInterface(sc.st, v, types.NewInterfaceType(nil, nil))
	case "perr":
		// the error is (or wraps) one returned by the Persistence
		return mBool(App("perr", SBool, sc.eval(arg(0)).C[0]))
	case "foreign":
		// the dynamic type of the value is defined outside the module (or the value is nil)
		v := sc.eval(arg(0))
		if sc.bseq == nil {
			sc.bseq = new(int)
			*sc.bseq = boundCounter
			boundCounter += 1000
		}
		tb := sc.bound("t")
		noMatch := Forall([]*Term{tb}, Implies(App("pkgerr", SBool, tb), Not(App("Is", SBool, v.C[0], tb))), App("Is", SBool, v.C[0], tb))
		return mBool(Or(Eq(v.C[0], Num(0)), And(Lt(App("dyntype", SInt, v.C[0]), Num(0)), Not(App("pkgerr", SBool, v.C[0])), noMatch)))
	case "as":
		// as(err, T): errors.As would find a T in err's chain
		v := sc.eval(arg(0))
		t := sc.typeExpr(arg(1))
		return mBool(And(Ne(v.C[0], Num(0)), App("AsT", SBool, v.C[0], Num(typeID(t)))))
	case "impl":
		// impl(v, "interface{M() T}"): the dynamic type of v has the methods of the interface type named
		// (the predicate a type assertion to that interface tests)
		v := sc.eval(arg(0))
		lit, ok := arg(1).(*ast.BasicLit)
		if !ok || lit.Kind != token.STRING {
			sc.errf(arg(1), "impl: interface type as a string literal")
			return mBool(TFalse)
		}
		name, _ := strconv.Unquote(lit.Value)
		return mBool(And(Ne(v.C[0], Num(0)), App("implements."+ifaceName(name), SBool, App("dyntype", SInt, v.C[0]))))
	case "hastype":
		v := sc.eval(arg(0))
		t := sc.typeExpr(arg(1))
		return mBool(And(Ne(v.C[0], Num(0)), Eq(App("dyntype", SInt, v.C[0]), Num(typeID(t)))))
	case "unbox":
		v := sc.eval(arg(0))
		t := sc.typeExpr(arg(1))
		tn := typeName(t)
		comps := Flatten(t)
		out := Value{T: t, C: make([]*Term, len(comps))}
		for k, c := range comps {
			out.C[k] = App(fmt.Sprintf("unbox.%s.%d", tn, k), c.Sort, v.C[0])
		}
		return out
	case "int":
		return mInt(sc.evalInt(arg(0)))
	case "wrap64":
		return mInt(Mod(sc.evalInt(arg(0)), NumB(Pow2(64))))
	}
	if pd, ok := x.S.Preds[name]; ok {
		if len(e.Args) != len(pd.Params) {
			sc.errf(e, "predicate %s takes %d arguments", name, len(pd.Params))
		}
		c := *sc
		c.vars = map[string]Value{}
		for k, v := range sc.vars {
			c.vars[k] = v
		}
		for i, p := range pd.Params {
			c.vars[p] = sc.eval(arg(i))
		}
		c.body = false
		c.entry = map[string]Value{}
		return mBool(c.evalBool(pd.C.Expr))
	}
	if g, ok := x.S.Ghosts[name]; ok {
		t := sc.st.region("ghost."+g.Name, g.Sort)
		if len(e.Args) != g.NArgs {
			sc.errf(e, "ghost %s takes %d arguments", name, g.NArgs)
		}
		for i := range e.Args {
			t = Select(t, x.ghostIndex(sc.eval(arg(i))))
		}
		if g.NonNeg {
			x.assumeTrue(Le(Num(0), t))
		}
		return ghostResult(g, t)
	}
	if sf, ok := x.S.Funcs[name]; ok {
		var args []*Term
		if len(e.Args) != len(sf.Params) {
			sc.errf(e, "spec function %s takes %d arguments", name, len(sf.Params))
		}
		for i := range e.Args {
			args = append(args, sc.eval(arg(i)).C...)
		}
		x.usedFuncs[name] = true
		r := App("spec."+name, specSort(sf.Res), args...)
		switch sf.Res {
		case "bool":
			return mBool(r)
		case "seq":
			return mSeq(r)
		}
		return mInt(r)
	}
	sc.errf(e, "unknown function %q", name)
	return Value{}
}

var boundCounter = 0

// autoTriggers: give quantifiers written in specifications explicit triggers (GOVC_NOTRIGGERS=1 turns it off).
var autoTriggers = os.Getenv("GOVC_NOTRIGGERS") == ""

func ghostResult(g *GhostDecl, t *Term) Value {
	switch g.Res {
	case SBool:
		return mBool(t)
	case sArrII:
		return mSeq(t)
	}
	return mInt(t)
}

func specSort(s string) *Sort {
	switch s {
	case "bool":
		return SBool
	case "seq":
		return sArrII
	case "seq2":
		return SArr(sArrII)
	}
	return SInt
}

func (sc *specCtx) seqParts(e ast.Expr, v Value) (arr, off, ln *Term) {
	if isStringT(v.T) {
		return v.C[0], v.C[1], v.C[2]
	}
	if sl, ok := v.T.Underlying().(*types.Slice); ok {
		return elemArr(sc.st, sl.Elem(), Flatten(sl.Elem())[0], v.C[0]), v.C[1], v.C[2]
	}
	sc.errf(e, "not a byte sequence: %v", v.T)
	return
}

// specFuncDefs prints define-fun(-rec) for the spec functions used.
func (x *Exec) specFuncDefs() string {
	var b strings.Builder
	// transitive closure of used functions, in declaration order
	changed := true
	for changed {
		changed = false
		for _, n := range x.S.FuncOrder {
			if !x.usedFuncs[n] {
				continue
			}
			sf := x.S.Funcs[n]
			if sf.Body == nil || ((sf.Rec || sf.Opaque) && !x.reveal[n]) {
				continue
			}
			ast.Inspect(sf.Body.Expr, func(nd ast.Node) bool {
				if c, ok := nd.(*ast.CallExpr); ok {
					if id, ok := c.Fun.(*ast.Ident); ok {
						if _, isF := x.S.Funcs[id.Name]; isF && !x.usedFuncs[id.Name] {
							x.usedFuncs[id.Name] = true
							changed = true
						}
					}
				}
				return true
			})
		}
	}
	for _, n := range x.S.FuncOrder {
		if !x.usedFuncs[n] {
			continue
		}
		sf := x.S.Funcs[n]
		var params []string
		sc := &specCtx{x: x, vars: map[string]Value{}, st: &State{pc: TTrue, locals: map[*ssa.Alloc]Value{}, heap: map[string]*Term{}}, entry: map[string]Value{}}
		if len(x.P.Pkgs) > 0 {
			sc.pkg = x.P.Pkgs[0].Pkg
			for _, p := range x.P.Pkgs {
				if p.Pkg.Path() == modPath {
					sc.pkg = p.Pkg
				}
			}
		}
		for i, p := range sf.Params {
			s := specSort(sf.PSorts[i])
			bv := BVar("p."+p, s)
			params = append(params, fmt.Sprintf("(%s %s)", symName(bv.Name), s))
			switch sf.PSorts[i] {
			case "bool":
				sc.vars[p] = mBool(bv)
			case "seq":
				sc.vars[p] = mSeq(bv)
			case "seq2":
				sc.vars[p] = mSeq2(bv)
			default:
				sc.vars[p] = mInt(bv)
			}
		}
		rs := specSort(sf.Res)
		if sf.Body == nil || ((sf.Rec || sf.Opaque) && !x.reveal[n]) {
			// recursive definitions stay opaque unless the contract reveals them
			var ps []string
			for i := range sf.Params {
				ps = append(ps, specSort(sf.PSorts[i]).String())
			}
			fmt.Fprintf(&b, "(declare-fun %s (%s) %s)\n", symName("spec."+n), strings.Join(ps, " "), rs)
			continue
		}
		body := sc.eval(sf.Body.Expr).C[0]
		if sf.Opaque {
			// revealed: the function stays a symbol (usable as a trigger) and gets its defining axiom
			var ps, as []string
			for i := range sf.Params {
				ps = append(ps, specSort(sf.PSorts[i]).String())
				as = append(as, symName("p."+sf.Params[i]))
			}
			app := "(" + symName("spec."+n) + " " + strings.Join(as, " ") + ")"
			fmt.Fprintf(&b, "(declare-fun %s (%s) %s)\n", symName("spec."+n), strings.Join(ps, " "), rs)
			fmt.Fprintf(&b, "(assert (forall (%s) (! (= %s %s) :pattern (%s))))\n", strings.Join(params, " "), app, body.str(map[*Term]string{}), app)
			continue
		}
		kw := "define-fun"
		if sf.Rec {
			kw = "define-fun-rec"
		}
		fmt.Fprintf(&b, "(%s %s (%s) %s %s)\n", kw, symName("spec."+n), strings.Join(params, " "), rs, body.str(map[*Term]string{}))
	}
	return b.String()
}

// typeExpr resolves a type written in a spec (T, *T, pkg.T).
func (sc *specCtx) typeExpr(e ast.Expr) types.Type {
	switch e := e.(type) {
	case *ast.StarExpr:
		return types.NewPointer(sc.typeExpr(e.X))
	case *ast.ParenExpr:
		return sc.typeExpr(e.X)
	case *ast.Ident:
		if sc.pkg != nil {
			if obj, ok := sc.pkg.Scope().Lookup(e.Name).(*types.TypeName); ok {
				return obj.Type()
			}
		}
		if obj, ok := types.Universe.Lookup(e.Name).(*types.TypeName); ok {
			return obj.Type()
		}
	case *ast.SelectorExpr:
		if id, ok := e.X.(*ast.Ident); ok {
			if p := sc.findPkg(id.Name); p != nil {
				if obj, ok := p.Scope().Lookup(e.Sel.Name).(*types.TypeName); ok {
					return obj.Type()
				}
			}
		}
	}
	sc.errf(e, "unknown type")
	return nil
}

func storedIn(l *loopInfo, a *ssa.Alloc) bool {
	for b := range l.Body {
		for _, in := range b.Instrs {
			if st, ok := in.(*ssa.Store); ok && st.Addr == a {
				return true
			}
		}
	}
	return false
}
