package main

// Calls (by contract, inlined, builtins), defers, closures, loop cuts.

import (
	"fmt"
	"go/ast"
	"go/constant"
	"sort"
	"go/token"
	"go/types"
	"strings"

	"golang.org/x/tools/go/ssa"
)

type closure struct {
	fn    *ssa.Function
	binds []Value
}

func (f *frame) call(i *ssa.Call, cc *ssa.CallCommon, n *node, st *State) *State {
	set := func(val Value) {
		val.T = i.Type()
		f.setReg(i, n.Ctx, val)
	}
	var args []Value
	if cc.IsInvoke() {
		args = append(args, f.get(cc.Value, n, st))
	}
	for _, a := range cc.Args {
		args = append(args, f.get(a, n, st))
	}
	if b, ok := cc.Value.(*ssa.Builtin); ok {
		r, st2 := f.builtin(b, i, args, n, st)
		if i.Type() != nil {
			set(r)
		}
		return st2
	}
	var fnVal *Value
	if !cc.IsInvoke() && cc.StaticCallee() == nil {
		v := f.get(cc.Value, n, st)
		fnVal = &v
	}
	res, st2 := f.callTarget(cc, fnVal, args, n, st, i.Pos(), i.Type())
	if st2 == nil {
		return nil
	}
	set(res)
	return st2
}

// callTarget applies a call given evaluated arguments, then the interference declared for the site
// (at call callee#n: interference loc, ...): while the call blocks, other goroutines may change these
// locations, so they hold arbitrary values afterwards.
func (f *frame) callTarget(cc *ssa.CallCommon, fnVal *Value, args []Value, n *node, st *State, pos token.Pos, rt types.Type) (Value, *State) {
	res, out := f.callTargetInner(cc, fnVal, args, n, st, pos, rt)
	if out == nil || f.c == nil || len(f.c.CallInterf) == 0 {
		return res, out
	}
	key := CalleeKey(cc)
	if key == "" {
		return res, out
	}
	site := fmt.Sprintf("%s#%d", shortKey(key), f.siteOrd(key, pos))
	if cl := f.c.CallInterf[site]; len(cl) > 0 {
		f.x.hitSites["interference "+site] = true
		sc := f.x.newSpecCtx(f, n, out, f.x.entryState)
		sc.anchor = pos
		f.x.havocModifies(sc, cl, out)
		for _, c := range cl {
			f.x.note("interference: while " + site + " blocks, other goroutines may change " + c.Text)
		}
	}
	return res, out
}

func (f *frame) callTargetInner(cc *ssa.CallCommon, fnVal *Value, args []Value, n *node, st *State, pos token.Pos, rt types.Type) (Value, *State) {
	x := f.x
	key := CalleeKey(cc)
	var callee *ssa.Function
	var free []Value
	if cc.IsInvoke() {
		// interface method: contract of the interface, or of a known implementation
	} else if fn := cc.StaticCallee(); fn != nil {
		callee = fn
		if mc, ok := cc.Value.(*ssa.MakeClosure); ok {
			for _, b := range mc.Bindings {
				free = append(free, f.get(b, n, st))
			}
		}
	} else if fnVal != nil {
		if cl, ok := x.closures[fnVal.C[0]]; ok {
			callee = cl.fn
			free = cl.binds
			key = FuncKey(callee)
		} else {
			key = "dynamic." + typeName(fnVal.T)
			// a contract of a function type may name the function value itself as its first parameter "self"
			if dc := x.S.Contracts[key]; dc != nil && len(dc.Params) == len(args)+1 && dc.Params[0] == "self" {
				args = append([]Value{*fnVal}, args...)
			}
		}
	}
	site := fmt.Sprintf("%s#%d", shortKey(key), f.siteOrd(key, pos))
	// in-body assertions before this call
	if f.c != nil {
		if len(f.c.CallAsserts[site]) > 0 {
			x.hitSites[site] = true
		}
		asserts := f.c.CallAsserts[site]
		// callee#last addresses the last call of that callee in the text, whatever its number
		if ps := f.sites[key]; len(ps) > 0 && ps[len(ps)-1] == pos {
			lastSite := shortKey(key) + "#last"
			if la := f.c.CallAsserts[lastSite]; len(la) > 0 {
				x.hitSites[lastSite] = true
				asserts = append(append([]*Clause{}, asserts...), la...)
			}
		}
		for _, a := range asserts {
			sc := x.newSpecCtx(f, n, st, x.entryState)
			sc.anchor = pos
			sc.bindArgs(x.S.Contracts[key], callee, cc, args)
			var g *Term
			func() {
				defer func() {
					if r := recover(); r != nil {
						if ee, ok := r.(*EngineError); ok {
							panic(&EngineError{fmt.Sprintf("at call %s (%s) in %s depth %d, %d live locals: %s", site, x.P.Fset.Position(pos), FuncKey(f.fn), f.inlineDepth, len(st.locals), ee.Msg)})
						}
						panic(r)
					}
				}()
				g = sc.evalBool(a.Expr)
			}()
			o := x.oblige("assert@"+site, a.Tags, st.pc, g, pos, a.Text)
			o.Reveal = a.Reveal
			o.By = a.By
			// checked here, known from here on
			x.assumeLabelled(st.pc, g, "asserted at "+site, a.Label)
		}
	}
	if r, ok := f.intrinsic(key, cc, args, n, st, pos); ok {
		r.T = rt
		return r, st
	}
	c := x.S.Contracts[key]
	if c != nil && !c.Inline {
		x.freeAtCall = nil
		if callee != nil && len(free) == len(callee.FreeVars) {
			// a closure called through its contract: the names of its captured variables mean what was captured
			x.freeAtCall = map[string]Value{}
			for q, fv := range callee.FreeVars {
				x.freeAtCall[fv.Name()] = free[q]
			}
		}
		defer func() { x.freeAtCall = nil }()
		return x.applyContract(f, n, c, callee, cc, args, st, pos, rt, site)
	}
	if callee != nil && callee.Blocks != nil && strings.HasPrefix(pkgPathOf(callee), modPath) {
		if f.inlineDepth >= 3 {
			fail("%s: inlining of %s exceeds depth 3; add a contract", x.Key, key)
		}
		x.note("inlined callee without contract: " + key)
		// entry state for the callee
		out, res := x.runBody(callee, c, args, free, st, f.inlineDepth+1)
		if out == nil {
			return Value{}, nil
		}
		out.pc = out.pc // merged pc of returns (a panic path ends the caller too)
		return tupleValue(res, rt), out
	}
	if key == "" {
		key = cc.Value.String()
	}
	fail("%s: call to %s has no contract in /verif/contracts (external callee)", x.Key, key)
	return Value{}, nil
}

func pkgPathOf(fn *ssa.Function) string {
	if fn.Pkg != nil {
		return fn.Pkg.Pkg.Path()
	}
	if fn.Parent() != nil {
		return pkgPathOf(fn.Parent())
	}
	return ""
}

func shortKey(k string) string {
	// mqtt.(*Client).write -> write ; bufio.(*Reader).Peek -> Peek ; net.Conn.Write -> Conn.Write
	if i := strings.LastIndex(k, ")."); i >= 0 {
		return k[i+2:]
	}
	parts := strings.Split(k, ".")
	if len(parts) >= 3 {
		return strings.Join(parts[len(parts)-2:], ".")
	}
	return parts[len(parts)-1]
}

func tupleValue(res []Value, rt types.Type) Value {
	if len(res) == 1 {
		return res[0]
	}
	var cs []*Term
	for _, r := range res {
		if r.P != nil && len(r.C) == 0 {
			fail("interior pointer returned in a tuple (outside the verified subset)")
		}
		cs = append(cs, r.C...)
	}
	return Value{T: rt, C: cs}
}

// bindArgs names the arguments (and results) of a call for spec evaluation.
func (sc *specCtx) bindArgs(c *Contract, callee *ssa.Function, cc *ssa.CallCommon, args []Value) {
	var names []string
	if c != nil && len(c.Params) > 0 {
		names = c.Params
	} else if callee != nil {
		for _, p := range callee.Params {
			names = append(names, p.Name())
		}
	}
	for k, v := range sc.x.freeAtCall {
		sc.vars[k] = v
	}
	for i, a := range args {
		if i < len(names) && names[i] != "" && names[i] != "_" {
			sc.vars[names[i]] = a
		}
		sc.vars[fmt.Sprintf("arg%d", i)] = a
	}
}

func resultNames(c *Contract, sig *types.Signature) []string {
	var names []string
	if c != nil && len(c.Results) > 0 {
		return c.Results
	}
	for i := 0; i < sig.Results().Len(); i++ {
		nm := sig.Results().At(i).Name()
		if nm == "" || nm == "_" {
			nm = fmt.Sprintf("r%d", i)
		}
		names = append(names, nm)
	}
	return names
}

func (x *Exec) applyContract(f *frame, n *node, c *Contract, callee *ssa.Function, cc *ssa.CallCommon, args []Value, st *State, pos token.Pos, rt types.Type, site string) (Value, *State) {
	sig := cc.Signature()
	if cc.IsInvoke() {
		x.oblige("nilcall", nil, st.pc, Ne(args[0].C[0], Num(0)), pos, "method call on a nil interface value")
	}
	pre := st.clone()
	// requires
	scPre := x.newSpecCtx(nil, nil, st, nil)
	scPre.body = false
	scPre.pkg = x.pkgFor(c, callee, f)
	scPre.bindArgs(c, callee, cc, args)
	for _, r := range c.Requires {
		g := scPre.evalBool(r.Expr)
		x.oblige("pre@"+site, nil, st.pc, g, pos, r.Text)
	}
	// havoc
	post := st
	if !c.Pure {
		if len(c.Modifies) == 0 && !c.Trusted {
			// an in-package contract without a frame: the caller knows nothing but the postconditions
			x.havocOne(scPre, &ast.Ident{Name: "heap"}, post)
		}
		x.havocModifies(scPre, c.Modifies, post)
		// allocation clock may advance
		nc := Fresh("clock", SInt)
		x.assume(TTrue, Le(pre.clock(), nc), "clock")
		post.heap[clockName] = nc
	}
	// results
	var res []Value
	names := resultNames(c, sig)
	for i := 0; i < sig.Results().Len(); i++ {
		v := FreshValue("ret."+shortKey(c.Key), sig.Results().At(i).Type())
		x.assume(TTrue, WFValue(v), "type")
		x.assume(TTrue, x.refsBelowClock(post, v), "clock")
		if _, isIface := v.T.Underlying().(*types.Interface); isIface && c.Trusted {
			// values produced by dependencies have dynamic types from outside the module
			x.assume(TTrue, Lt(App("dyntype", SInt, v.C[0]), Num(0)), "external dynamic type")
			if strings.HasPrefix(c.Key, "mqtt.Persistence.") {
				x.assume(TTrue, Implies(Ne(v.C[0], Num(0)), App("perr", SBool, v.C[0])), "errors of the Persistence are persistence errors")
			} else {
				x.assume(TTrue, Not(App("perr", SBool, v.C[0])), "other dependencies do not return persistence errors")
			}
			x.assume(TTrue, Not(App("pkgerr", SBool, v.C[0])), "errors from dependencies are not the package's sentinels")
			tb := BVar("t?fe", SInt)
			x.assumeNeed("Is", Forall([]*Term{tb}, Implies(App("pkgerr", SBool, tb), Not(App("Is", SBool, v.C[0], tb))), App("Is", SBool, v.C[0], tb)))
			// ... and contain no value of a module type in their chain
			td := BVar("t?fa", SInt)
			x.assumeNeed("AsT", Forall([]*Term{td}, Implies(Gt(td, Num(0)), Not(App("AsT", SBool, v.C[0], td))), App("AsT", SBool, v.C[0], td)))
		}
		res = append(res, v)
	}
	scPost := x.newSpecCtx(nil, nil, post, pre)
	scPost.body = false
	scPost.pkg = scPre.pkg
	scPost.bindArgs(c, callee, cc, args)
	for i, v := range res {
		if i < len(names) {
			scPost.vars[names[i]] = v
		}
	}
	if len(res) == 1 {
		scPost.vars["result"] = res[0]
	}
	for _, e := range c.Ensures {
		x.assume(st.pc, scPost.evalBool(e.Expr), "ensures "+c.Key)
	}
	if c.Trusted {
		x.note("assumed contract: " + c.Key)
	} else if c.Unverified {
		x.note("in-package contract used but not yet discharged: " + c.Key)
	}
	return tupleValue(res, rt), post
}

func (x *Exec) pkgFor(c *Contract, callee *ssa.Function, f *frame) *types.Package {
	if callee != nil && callee.Pkg != nil {
		return callee.Pkg.Pkg
	}
	if f != nil && f.fn.Pkg != nil {
		return f.fn.Pkg.Pkg
	}
	for _, p := range x.P.Pkgs {
		if p.Pkg.Path() == modPath {
			return p.Pkg
		}
	}
	return nil
}

// havocModifies replaces the designated locations by fresh values.
func (x *Exec) havocModifies(sc *specCtx, mods []*Clause, st *State) {
	// every location is resolved in the state before any havoc (elems(*p) means the
	// backing array *p designated on entry, even when *p itself is in the frame)
	pre := st.clone()
	for _, m := range mods {
		x.havocOneAt(sc.withState(pre), m.Expr, st)
	}
}

func (x *Exec) havocOne(sc *specCtx, e ast.Expr, st *State) {
	x.havocOneAt(sc.withState(st), e, st)
}

// havocOneAt: the location expression is evaluated in sc's state, the havoc applied to st.
func (x *Exec) havocOneAt(sc *specCtx, e ast.Expr, st *State) {
	if id, ok := e.(*ast.Ident); ok {
		if id.Name == "nothing" {
			return // a frame that names no pre-existing location (the callee may still allocate)
		}
		if id.Name == "heap" {
			for k, t := range st.heap {
				if k == clockName {
					continue
				}
				st.heap[k] = Fresh("havoc."+k, t.S)
			}
			x.note("callee may modify the whole heap")
			return
		}
		if g, ok := x.S.Ghosts[id.Name]; ok {
			st.setRegion("ghost."+g.Name, Fresh("havoc.ghost."+g.Name, g.Sort))
			return
		}
	}
	if call, ok := e.(*ast.CallExpr); ok {
		if id, ok := call.Fun.(*ast.Ident); ok {
			switch {
			case id.Name == "elems":
				v := sc.eval(call.Args[0])
				sl, ok := v.T.Underlying().(*types.Slice)
				if !ok {
					sc.errf(e, "elems of non-slice")
				}
				for _, c := range Flatten(sl.Elem()) {
					na := Fresh("havoc.elems", SArr(c.Sort))
					setElemArr(st, sl.Elem(), c, v.C[0], na)
				}
				return
			case id.Name == "chanstate":
				v := sc.eval(call.Args[0])
				ref := v.C[0]
				et := chanElem(v.T)
				for _, nm := range []string{chReg("len", v.T), chReg("head", v.T)} {
					st.setRegion(nm, Store(st.region(nm, sArrII), ref, Fresh("havoc."+nm, SInt)))
				}
				for _, c := range Flatten(et) {
					nm := "chan.q." + typeName(et) + c.Suffix
					st.setRegion(nm, Store(st.region(nm, SArr(SArr(c.Sort))), ref, Fresh("havoc."+nm, SArr(c.Sort))))
				}
				st.setRegion(chReg("closed", v.T), Store(st.region(chReg("closed", v.T), SArr(SBool)), ref, Fresh("havoc.chan.closed", SBool)))
				return
			case id.Name == "region":
				// region("name"): whole region by name
				name := strings.Trim(exprString(call.Args[0]), `"`)
				// every region with this name prefix (e.g. all components of a map type)
				var hit []string
				for k := range regionSorts {
					if strings.HasPrefix(k, name) {
						hit = append(hit, k)
					}
				}
				sort.Strings(hit)
				for _, k := range hit {
					st.setRegion(k, Fresh("havoc."+k, regionSorts[k]))
				}
				lazySeq++
				st.lazy = append(st.lazy, lazyHavoc{name, lazySeq})
				return
			}
			if g, ok := x.S.Ghosts[id.Name]; ok {
				// ghost location g(a, b)
				var idx []*Term
				for _, a := range call.Args {
					idx = append(idx, x.ghostIndex(sc.eval(a)))
				}
				reg := st.region("ghost."+g.Name, g.Sort)
				st.setRegion("ghost."+g.Name, storeNested(reg, idx, Fresh("havoc."+g.Name, nestedElem(g.Sort, len(idx)))))
				return
			}
		}
	}
	// a location expression: x.f, *p, s[i]
	p := sc.location(e)
	v := FreshValue("havoc", pointee(p))
	x.assume(TTrue, WFValue(v), "type")
	x.store(st, p, v)
}

func nestedElem(s *Sort, n int) *Sort {
	for i := 0; i < n; i++ {
		s = s.Elem
	}
	return s
}

func storeNested(arr *Term, idx []*Term, v *Term) *Term {
	if len(idx) == 0 {
		return v
	}
	return Store(arr, idx[0], storeNested(Select(arr, idx[0]), idx[1:], v))
}

// location evaluates an l-value expression to a pointer.
func (sc *specCtx) location(e ast.Expr) *Ptr {
	x := sc.x
	switch e := e.(type) {
	case *ast.ParenExpr:
		return sc.location(e.X)
	case *ast.StarExpr:
		return x.ptrOf(sc.eval(e.X))
	case *ast.SelectorExpr:
		base := sc.eval(e.X)
		if pt, ok := base.T.Underlying().(*types.Pointer); ok {
			path := fieldPath(pt.Elem(), e.Sel.Name)
			if path == nil {
				sc.errf(e, "no such field")
			}
			p := x.ptrOf(base)
			np := *p
			np.Path = append(append([]int{}, p.Path...), path...)
			return &np
		}
		sc.errf(e, "location through non-pointer %v", base.T)
	case *ast.IndexExpr:
		base := sc.eval(e.X)
		idx := sc.evalInt(e.Index)
		if sl, ok := base.T.Underlying().(*types.Slice); ok {
			return &Ptr{Kind: PElem, Ref: base.C[0], Idx: Add(base.C[1], idx), RootT: sl.Elem()}
		}
	case *ast.Ident:
		// a local variable cell
		if sc.f != nil {
			for _, b := range sc.f.fn.Blocks {
				for _, in := range b.Instrs {
					if a, ok := in.(*ssa.Alloc); ok && a.Comment == e.Name {
						if !a.Heap {
							return &Ptr{Kind: PLocal, Alloc: a, RootT: deref(a.Type())}
						}
						if sc.n != nil {
							if rv, ok := sc.f.regs[sc.f.regKey(a, sc.n.Ctx)]; ok {
								return x.ptrOf(Value{T: a.Type(), C: rv.C, P: rv.P})
							}
						}
					}
				}
			}
		}
	}
	sc.errf(e, "not a location")
	return nil
}

// ---- defers ----

func (f *frame) runDefers(n *node, st *State) *State {
	x := f.x
	ds := st.defers
	st.defers = nil
	for k := len(ds) - 1; k >= 0; k-- {
		d := ds[k]
		run := func(s *State) *State {
			cc := &d.instr.Call
			if b, ok := cc.Value.(*ssa.Builtin); ok {
				_, s2 := f.builtin(b, d.instr, d.args, n, s)
				return s2
			}
			var fnVal *Value
			if d.fn.C != nil && !cc.IsInvoke() && cc.StaticCallee() == nil {
				fnVal = &d.fn
			}
			var rt types.Type = cc.Signature().Results()
			_, s2 := f.callTarget(cc, fnVal, d.args, n, s, d.instr.Pos(), rt)
			return s2
		}
		if d.guard.IsTrue() {
			st = run(st)
			if st == nil {
				return nil
			}
			continue
		}
		yes := st.clone()
		yes.pc = And(st.pc, d.guard)
		no := st
		no.pc = And(st.pc, Not(d.guard))
		yes = run(yes)
		if yes == nil {
			st = no
			continue
		}
		st = mergeStates([]*State{yes, no})
	}
	_ = x
	return st
}

// ---- builtins ----

func (f *frame) builtin(b *ssa.Builtin, at ssa.Instruction, args []Value, n *node, st *State) (Value, *State) {
	x := f.x
	pos := at.Pos()
	switch b.Name() {
	case "len":
		v := args[0]
		switch v.T.Underlying().(type) {
		case *types.Slice:
			return Value{C: []*Term{v.C[2]}}, st
		case *types.Basic:
			return Value{C: []*Term{v.C[2]}}, st
		case *types.Chan:
			return Value{C: []*Term{x.chanLen(st, v)}}, st
		case *types.Map:
			ml := Select(st.region("map.len", sArrII), v.C[0])
			// the number of entries of a map is not negative
			x.assumeTrue(Le(Num(0), ml))
			return Value{C: []*Term{ml}}, st
		}
	case "cap":
		v := args[0]
		switch v.T.Underlying().(type) {
		case *types.Slice:
			return Value{C: []*Term{v.C[3]}}, st
		case *types.Chan:
			return Value{C: []*Term{Select(st.region(chReg("cap", v.T), sArrII), v.C[0])}}, st
		}
	case "append":
		return x.appendBuiltin(st, args[0], args[1], at.(ssa.Value).Type(), pos), st
	case "copy":
		return x.copyBuiltin(st, args[0], args[1]), st
	case "close":
		return Value{}, f.chanClose(args[0], n, st, pos)
	case "delete":
		f.mapDelete(args[0], args[1], st)
		return Value{}, st
	case "min", "max":
		a, c := args[0].One(), args[1].One()
		if b.Name() == "min" {
			return Value{C: []*Term{Ite(Le(a, c), a, c)}}, st
		}
		return Value{C: []*Term{Ite(Le(a, c), c, a)}}, st
	case "ssa:wrapnilchk":
		return args[0], st
	case "ssa:deferstack":
		return Value{C: []*Term{Num(0)}}, st
	}
	fail("unsupported builtin %s on %v", b.Name(), args[0].T)
	return Value{}, nil
}

// seqOf: content array, offset, length of a byte-like source (slice or string).
func (x *Exec) seqOf(st *State, v Value, c Comp, elemT types.Type) (arr, off, ln *Term) {
	if isStringT(v.T) {
		return v.C[0], v.C[1], v.C[2]
	}
	return elemArr(st, elemT, c, v.C[0]), v.C[1], v.C[2]
}

// constLen returns the concrete length if the term is a small numeral.
func constLen(t *Term) (int, bool) {
	if t.IsInt() && t.Int.IsInt64() && t.Int.Int64() >= 0 && t.Int.Int64() <= 16 {
		return int(t.Int.Int64()), true
	}
	return 0, false
}

// bulkCopy returns dst with n elements from src[so..] written at do.
func (x *Exec) bulkCopy(dst, do, src, so, n *Term) *Term {
	if k, ok := constLen(n); ok {
		r := dst
		for j := 0; j < k; j++ {
			r = Store(r, Add(do, Num(int64(j))), Select(src, Add(so, Num(int64(j)))))
		}
		return r
	}
	na := Fresh("copy", dst.S)
	k := BVar(fmt.Sprintf("k?c%d", freshSeq["copy"]), SInt)
	in := And(Le(do, k), Lt(k, Add(do, n)))
	x.assumeNeed(na.Name, Forall([]*Term{k}, Ite(in, Eq(Select(na, k), Select(src, Add(so, Sub(k, do)))), Eq(Select(na, k), Select(dst, k))), Select(na, k)))
	return na
}

func (x *Exec) appendBuiltin(st *State, s, t Value, rt types.Type, pos token.Pos) Value {
	sl := rt.Underlying().(*types.Slice)
	et := sl.Elem()
	var n *Term
	if isStringT(t.T) {
		n = t.C[2]
	} else {
		n = t.C[2]
	}
	newLen := Add(s.C[2], n)
	fits := Le(newLen, s.C[3])
	fresh := st.newRef()
	ref := Ite(fits, s.C[0], fresh)
	nc := Fresh("cap", SInt)
	x.assumeTrue(And(Le(newLen, nc), Le(nc, Num(maxLen))))
	capv := Ite(fits, s.C[3], nc)
	for _, c := range Flatten(et) {
		base := elemArr(st, et, c, s.C[0])
		var src, so *Term
		if isStringT(t.T) {
			src, so = t.C[0], t.C[1]
		} else {
			src, so = elemArr(st, et, c, t.C[0]), t.C[1]
		}
		do := Add(s.C[1], s.C[2])
		na := x.bulkCopy(base, do, src, so, n)
		if c.Iface && na.Op == "var" {
			// slices of interface values are searched by content: the same fact keyed by the source
			// position (a reader of src[j] learns where it went)
			j := BVar(fmt.Sprintf("j?c%d", freshSeq["copy"]), SInt)
			x.assumeNeed(na.Name, Forall([]*Term{j}, Implies(And(Le(so, j), Lt(j, Add(so, n))), Eq(Select(na, Add(do, Sub(j, so))), Select(src, j))), Select(src, j)))
		}
		setElemArr(st, et, c, ref, na)
	}
	// (appending nothing to a nil slice keeps it nil: it fits, so ref is the old reference)
	return Value{T: rt, C: []*Term{ref, s.C[1], newLen, capv}}
}

func (x *Exec) copyBuiltin(st *State, d, s Value) Value {
	sl := d.T.Underlying().(*types.Slice)
	et := sl.Elem()
	var sn *Term = s.C[2]
	n := Ite(Le(d.C[2], sn), d.C[2], sn)
	for _, c := range Flatten(et) {
		var src, so *Term
		if isStringT(s.T) {
			src, so = s.C[0], s.C[1]
		} else {
			src, so = elemArr(st, et, c, s.C[0]), s.C[1]
		}
		base := elemArr(st, et, c, d.C[0])
		setElemArr(st, et, c, d.C[0], x.bulkCopy(base, d.C[1], src, so, n))
	}
	return Value{C: []*Term{n}}
}

// ---- loops ----

func (f *frame) invCtx(l *loopInfo, st *State, n *node) *specCtx {
	sc := f.x.newSpecCtx(f, n, st, f.x.entryState)
	sc.loop = l
	for k, v := range f.loopLets[loopLetKey(l, n)] {
		sc.vars[k] = v
	}
	sc.anchor = l.Head.Instrs[0].Pos()
	if !sc.anchor.IsValid() {
		for _, in := range l.Head.Instrs {
			if in.Pos().IsValid() {
				sc.anchor = in.Pos()
				break
			}
		}
	}
	return sc
}

func loopLetKey(l *loopInfo, n *node) string {
	// the context up to and including this loop
	var ctx []ctxEntry
	for _, e := range n.Ctx {
		ctx = append(ctx, e)
		if e.L == l {
			break
		}
	}
	return fmt.Sprintf("%d@%s", l.Ordinal, ctxKey(ctx))
}

// bindLoopLets evaluates the loop's ghost lets in the state at loop entry.
func (f *frame) bindLoopLets(l *loopInfo, st *State, n *node) {
	if len(l.Spec.Lets) == 0 {
		return
	}
	if f.loopLets == nil {
		f.loopLets = map[string]map[string]Value{}
	}
	m := map[string]Value{}
	f.loopLets[loopLetKey(l, n)] = m
	for _, lt := range l.Spec.Lets {
		sc := f.invCtx(l, st, n)
		m[lt.Name] = sc.eval(lt.C.Expr)
	}
}

// bindVariants evaluates the decreases expressions in the state of an arbitrary iteration head (after the
// invariants were assumed); checkVariants demands at every back edge that each is smaller than it was and
// was not negative: the loop cannot go round for ever.
func (f *frame) bindVariants(l *loopInfo, st *State, n *node) {
	if l.Spec == nil || len(l.Spec.Decreases) == 0 {
		return
	}
	if f.loopVariants == nil {
		f.loopVariants = map[string][]*Term{}
	}
	var vs []*Term
	for _, d := range l.Spec.Decreases {
		sc := f.invCtx(l, st, n)
		vs = append(vs, sc.evalInt(d.Expr))
	}
	f.loopVariants[loopLetKey(l, n)] = vs
}

func (f *frame) checkVariants(l *loopInfo, st *State, n *node) {
	if l.Spec == nil || len(l.Spec.Decreases) == 0 {
		return
	}
	head := f.loopVariants[loopLetKey(l, n)]
	for k, d := range l.Spec.Decreases {
		if k >= len(head) {
			continue
		}
		sc := f.invCtx(l, st, n)
		now := sc.evalInt(d.Expr)
		f.x.oblige(fmt.Sprintf("variant#loop%d", l.Ordinal), d.Tags, st.pc, And(Le(Num(0), head[k]), Lt(now, head[k])), firstPos(l.Head), "decreases "+d.Text)
	}
}

func (f *frame) checkInvariants(l *loopInfo, st *State, kind string, n *node) {
	for _, inv := range l.Spec.Invariants {
		sc := f.invCtx(l, st, n)
		g := sc.evalBool(inv.Expr)
		o := f.x.oblige(fmt.Sprintf("%s#loop%d", kind, l.Ordinal), inv.Tags, st.pc, g, firstPos(l.Head), inv.Text)
		o.Reveal = inv.Reveal
	}
}

// rangeIndexFact: go/ssa lowers `for i, v := range slice` to a hidden counter
// (local "rangeindex", initialised to -1, incremented and compared with the
// length at the loop head). The pattern is recognised syntactically and its
// structural invariant -1 <= rangeindex <= len-1 is assumed at the cut.
func (f *frame) rangeIndexFact(l *loopInfo, st *State, n *node) {
	if l.Head.Comment != "rangeindex.loop" || len(l.Head.Instrs) < 5 {
		return
	}
	ld, ok1 := l.Head.Instrs[0].(*ssa.UnOp)
	add, ok2 := l.Head.Instrs[1].(*ssa.BinOp)
	sto, ok3 := l.Head.Instrs[2].(*ssa.Store)
	cmp, ok4 := l.Head.Instrs[3].(*ssa.BinOp)
	if !ok1 || !ok2 || !ok3 || !ok4 {
		return
	}
	a, ok := ld.X.(*ssa.Alloc)
	if !ok || a.Comment != "rangeindex" || sto.Addr != a || sto.Val != add || add.X != ld || cmp.X != add || cmp.Op != token.LSS {
		return
	}
	one, isC := add.Y.(*ssa.Const)
	if !isC || one.Int64() != 1 || add.Op != token.ADD {
		return
	}
	if in, isInstr := cmp.Y.(ssa.Instruction); isInstr && l.Body[in.Block()] {
		return
	}
	ri, live := st.locals[a]
	if !live {
		return
	}
	ln := f.get(cmp.Y, n, st).One()
	f.x.assume(st.pc, And(Le(Num(-1), ri.One()), Le(ri.One(), Sub(ln, Num(1))), Le(Num(0), ln)), "range index pattern")
}

func (f *frame) assumeInvariants(l *loopInfo, st *State, n *node) {
	f.rangeIndexFact(l, st, n)
	for _, inv := range l.Spec.Invariants {
		sc := f.invCtx(l, st, n)
		f.x.assume(st.pc, sc.evalBool(inv.Expr), fmt.Sprintf("invariant loop %d", l.Ordinal))
	}
}

func firstPos(b *ssa.BasicBlock) token.Pos {
	for _, in := range b.Instrs {
		if in.Pos().IsValid() {
			return in.Pos()
		}
	}
	return token.NoPos
}

// havocLoop forgets everything the loop body may change.
func (f *frame) havocLoop(l *loopInfo, st *State, n *node) {
	x := f.x
	precise := l.Spec != nil && len(l.Spec.Modifies) > 0
	regions := map[string]bool{}
	all := false
	var visitFn func(fn *ssa.Function, blocks map[*ssa.BasicBlock]bool, depth int)
	locals := map[*ssa.Alloc]bool{}
	visitFn = func(fn *ssa.Function, blocks map[*ssa.BasicBlock]bool, depth int) {
		for _, b := range fn.Blocks {
			if blocks != nil && !blocks[b] {
				continue
			}
			for _, in := range b.Instrs {
				switch i := in.(type) {
				case *ssa.Store:
					root, reg := f.storeTarget(i.Addr)
					if root != nil {
						locals[root] = true
					} else if reg != "" {
						regions[reg] = true
					} else {
						all = true
					}
				case *ssa.MapUpdate:
					regions["map."] = true
				case *ssa.Send, *ssa.Select:
					regions["chan."] = true
				case *ssa.MakeSlice, *ssa.MakeMap, *ssa.MakeChan, *ssa.MakeClosure:
					// only fresh objects
				case ssa.CallInstruction:
					cc := i.Common()
					if b, ok := cc.Value.(*ssa.Builtin); ok {
						switch b.Name() {
						case "append", "copy":
							et := ""
							if sl, ok := cc.Args[0].Type().Underlying().(*types.Slice); ok {
								et = elemsBase(sl.Elem())
							}
							regions[et] = true
						case "delete":
							regions["map."] = true
						case "close":
							regions["chan."] = true
						}
						continue
					}
					key := CalleeKey(cc)
					switch key {
					case "errors.New", "fmt.Errorf", "errors.Join", "errors.Is", "fmt.Sprintf", "fmt.Sprint", "sync.(*Pool).Get":
						continue
					case "errors.As":
						if mi, ok := cc.Args[1].(*ssa.MakeInterface); ok {
							root, reg := f.storeTarget(mi.X)
							if root != nil {
								locals[root] = true
							} else if reg != "" {
								regions[reg] = true
							} else {
								all = true
							}
							continue
						}
					}
					c := x.S.Contracts[key]
					if c != nil && !c.Inline {
						if c.Pure {
							continue
						}
						for _, m := range c.Modifies {
							for _, r := range x.modRegions(m.Expr, cc, c) {
								if r == "*" {
									all = true
								}
								regions[r] = true
							}
						}
						continue
					}
					if callee := cc.StaticCallee(); callee != nil && callee.Blocks != nil && depth < 3 {
						visitFn(callee, nil, depth+1)
						continue
					}
					all = true
				}
			}
		}
	}
	visitFn(f.fn, l.Body, 0)
	for a := range locals {
		if old, ok := st.locals[a]; ok {
			if old.P != nil && len(old.C) == 0 {
				fail("loop %d modifies the pointer-valued local %s (outside the verified subset)", l.Ordinal, a.Comment)
			}
			v := FreshValue("loop."+a.Comment, old.T)
			x.assume(TTrue, WFValue(v), "type")
			st.locals[a] = v
		}
	}
	for k, t := range st.heap {
		if k == clockName || precise {
			continue
		}
		hit := all
		for r := range regions {
			if r != "" && strings.HasPrefix(k, r) {
				hit = true
			}
		}
		if hit {
			st.heap[k] = Fresh("loop."+k, t.S)
		}
	}
	// regions not yet touched before the loop but written inside: whichever of them is first read after the
	// head gets a fresh value instead of the entry state's (State.region consults st.lazy)
	if !precise {
		var prefixes []string
		if all {
			prefixes = []string{""}
		} else {
			for r := range regions {
				if r != "" {
					prefixes = append(prefixes, r)
				}
			}
			sort.Strings(prefixes)
		}
		for _, r := range prefixes {
			lazySeq++
			st.lazy = append(st.lazy, lazyHavoc{r, lazySeq})
		}
	}
	nc := Fresh("clock", SInt)
	x.assume(TTrue, Le(st.clock(), nc), "clock")
	st.heap[clockName] = nc
	if l.Spec != nil {
		sc := f.invCtx(l, st, n)
		x.havocModifies(sc, l.Spec.Modifies, st)
	}
	// whatever reference a local holds at the loop head was allocated before now
	for _, v := range st.locals {
		if len(v.C) > 0 && v.T != nil {
			x.assume(TTrue, x.refsBelowClock(st, v), "clock")
		}
	}
	if precise {
		// the loop's frame is checked at every back edge against this state
		if f.loopHeads == nil {
			f.loopHeads = map[string]*State{}
		}
		f.loopHeads[loopLetKey(l, n)] = st.clone()
	}
}

// loopFrameCheck: at a back edge, everything outside the loop's modifies clause equals the head state.
func (f *frame) loopFrameCheck(l *loopInfo, st *State, n *node) {
	head := f.loopHeads[loopLetKey(l, n)]
	if head == nil {
		return
	}
	hv := head.clone()
	sc := f.invCtx(l, hv, n)
	f.x.frameObligations(fmt.Sprintf("loop-frame#loop%d", l.Ordinal), f, head, hv, sc, l.Spec.Modifies, st, head.clock())
}

// storeTarget classifies the destination of a store: a local cell, or a region prefix.
func (f *frame) storeTarget(addr ssa.Value) (*ssa.Alloc, string) {
	switch a := addr.(type) {
	case *ssa.Alloc:
		_, isArr := deref(a.Type()).Underlying().(*types.Array)
		if !a.Heap && !isArr {
			return a, ""
		}
		if isArr {
			return nil, elemsBase(deref(a.Type()).Underlying().(*types.Array).Elem())
		}
		return nil, regionBase(deref(a.Type()))
	case *ssa.FieldAddr:
		root, reg := f.storeTarget(a.X)
		if root != nil {
			return root, ""
		}
		st := deref(a.X.Type()).Underlying().(*types.Struct)
		fname := "." + st.Field(a.Field).Name()
		if reg == "" {
			// pointer from a register: region of the struct type
			return nil, regionBase(deref(a.X.Type())) + fname
		}
		return nil, reg + fname
	case *ssa.IndexAddr:
		switch bt := a.X.Type().Underlying().(type) {
		case *types.Slice:
			return nil, elemsBase(bt.Elem())
		case *types.Pointer:
			return nil, elemsBase(bt.Elem().Underlying().(*types.Array).Elem())
		}
	case *ssa.UnOp:
		// p loaded from somewhere: region by pointee type
		if pt, ok := a.Type().Underlying().(*types.Pointer); ok {
			if _, isStruct := pt.Elem().Underlying().(*types.Struct); isStruct {
				return nil, regionBase(pt.Elem())
			}
			return nil, regionBase(pt.Elem())
		}
	case *ssa.Parameter, *ssa.FreeVar, *ssa.Call, *ssa.Extract, *ssa.Phi:
		if pt, ok := addr.Type().Underlying().(*types.Pointer); ok {
			return nil, regionBase(pt.Elem())
		}
	case *ssa.Global:
		return nil, "global."
	}
	return nil, ""
}

// modRegions over-approximates a modifies entry by region-name prefixes,
// using the static types of the call's arguments.
func (x *Exec) modRegions(e ast.Expr, cc *ssa.CallCommon, c *Contract) []string {
	switch e := e.(type) {
	case *ast.Ident:
		if e.Name == "heap" {
			return []string{"*"}
		}
		if e.Name == "nothing" {
			return nil
		}
		if _, ok := x.S.Ghosts[e.Name]; ok {
			return []string{"ghost." + e.Name}
		}
	case *ast.CallExpr:
		if id, ok := e.Fun.(*ast.Ident); ok {
			if _, ok := x.S.Ghosts[id.Name]; ok {
				return []string{"ghost." + id.Name}
			}
			if id.Name == "elems" {
				if t := x.staticType(e.Args[0], cc, c); t != nil {
					if sl, ok := t.Underlying().(*types.Slice); ok {
						return []string{elemsBase(sl.Elem())}
					}
				}
				return []string{"elems."}
			}
			if id.Name == "chanstate" {
				return []string{"chan."}
			}
			if id.Name == "region" {
				return []string{strings.Trim(exprString(e.Args[0]), `"`)}
			}
		}
	case *ast.StarExpr:
		if t := x.staticType(e.X, cc, c); t != nil {
			if pt, ok := t.Underlying().(*types.Pointer); ok {
				return []string{regionBase(pt.Elem())}
			}
		}
	case *ast.SelectorExpr:
		if t := x.staticType(e.X, cc, c); t != nil {
			if pt, ok := t.Underlying().(*types.Pointer); ok {
				t = pt.Elem()
			}
			if path := fieldPath(t, e.Sel.Name); path != nil {
				return []string{regionBase(t) + pathName(t, path)}
			}
		}
	case *ast.IndexExpr:
		if t := x.staticType(e.X, cc, c); t != nil {
			if sl, ok := t.Underlying().(*types.Slice); ok {
				return []string{elemsBase(sl.Elem())}
			}
		}
	}
	// unknown shape: be coarse — any struct/cell/elems region
	return []string{"mqtt.", "mqtttest.", "cell.", "struct.", "elems."}
}

// staticType computes the Go type of a simple spec expression over the
// callee's parameters (identifier, *x, x.f, x[i]).
func (x *Exec) staticType(e ast.Expr, cc *ssa.CallCommon, c *Contract) types.Type {
	switch e := e.(type) {
	case *ast.ParenExpr:
		return x.staticType(e.X, cc, c)
	case *ast.Ident:
		var names []string
		if c != nil && len(c.Params) > 0 {
			names = c.Params
		} else if fn := cc.StaticCallee(); fn != nil {
			for _, p := range fn.Params {
				names = append(names, p.Name())
			}
		}
		var argT []types.Type
		if cc.IsInvoke() {
			argT = append(argT, cc.Value.Type())
		}
		for _, a := range cc.Args {
			argT = append(argT, a.Type())
		}
		for i, n := range names {
			if n == e.Name && i < len(argT) {
				return argT[i]
			}
		}
	case *ast.StarExpr:
		if t := x.staticType(e.X, cc, c); t != nil {
			if pt, ok := t.Underlying().(*types.Pointer); ok {
				return pt.Elem()
			}
		}
	case *ast.SelectorExpr:
		if t := x.staticType(e.X, cc, c); t != nil {
			if pt, ok := t.Underlying().(*types.Pointer); ok {
				t = pt.Elem()
			}
			if path := fieldPath(t, e.Sel.Name); path != nil {
				_, _, ft := compRange(t, path)
				return ft
			}
		}
	case *ast.IndexExpr:
		if t := x.staticType(e.X, cc, c); t != nil {
			if sl, ok := t.Underlying().(*types.Slice); ok {
				return sl.Elem()
			}
		}
	}
	return nil
}

// ---- intrinsics: error constructors and predicates of the standard library ----

// varargElems reads the n elements of a variadic []any / []error argument.
func (x *Exec) varargElems(st *State, v Value, n int) []*Term {
	sl := v.T.Underlying().(*types.Slice)
	c := Flatten(sl.Elem())[0]
	arr := elemArr(st, sl.Elem(), c, v.C[0])
	var out []*Term
	for i := 0; i < n; i++ {
		out = append(out, Select(arr, Add(v.C[1], Num(int64(i)))))
	}
	return out
}

func (x *Exec) newError(st *State, wraps []*Term, kind string) *Term {
	r := st.newRef()
	h := Fresh("err", SInt)
	x.assume(st.pc, Eq(h, r), "fresh error")
	x.assume(st.pc, Eq(App("dyntype", SInt, h), Num(-int64(len(kind)))), "fresh error")
	x.assume(st.pc, Not(App("pkgerr", SBool, h)), "fresh error")
	{
		// an error is a persistence error iff it is, or wraps, one returned by the Persistence
		var ws []*Term
		for _, w := range wraps {
			ws = append(ws, And(Ne(w, Num(0)), App("perr", SBool, w)))
		}
		x.assume(st.pc, Eq(App("perr", SBool, h), Or(ws...)), "fresh error")
	}
	x.assumeNeedPC(st.pc, "Is", isAxiomAt(h, wraps))
	x.assumeNeedPC(st.pc, "AsT", asAxiom(h, wraps))
	return h
}

func isAxiomAt(h *Term, wraps []*Term) *Term {
	return isAxiom(h, wraps)
}

// intrinsic handles calls whose semantics the engine knows. ok=false: not one.
func (f *frame) intrinsic(key string, cc *ssa.CallCommon, args []Value, n *node, st *State, pos token.Pos) (Value, bool) {
	x := f.x
	switch key {
	case "errors.New":
		return Value{C: []*Term{x.newError(st, nil, "new")}}, true
	case "fmt.Errorf":
		var format string
		if c, ok := cc.Args[0].(*ssa.Const); ok {
			format = constant.StringVal(c.Value)
		} else {
			fail("%s: fmt.Errorf with a non-constant format", x.Key)
		}
		verbs := formatVerbs(format)
		elems := x.varargElems(st, args[1], len(verbs))
		var wraps []*Term
		for k, v := range verbs {
			if v == 'w' {
				wraps = append(wraps, elems[k])
			}
		}
		return Value{C: []*Term{x.newError(st, wraps, "wrap")}}, true
	case "sort.Slice":
		x.sortSlice(f, cc, args, n, st, pos)
		return Value{}, true
	case "errors.Join":
		// errors.Join(errs...): nil when all nil; constant arity at all call sites
		cnt, ok := constLen(args[0].C[2])
		if !ok {
			fail("errors.Join with a non-constant number of arguments")
		}
		elems := x.varargElems(st, args[0], cnt)
		h := x.newError(st, elems, "join")
		var allNil []*Term
		for _, e := range elems {
			allNil = append(allNil, Eq(e, Num(0)))
		}
		return Value{C: []*Term{Ite(And(allNil...), Num(0), h)}}, true
	case "errors.Is":
		e, t := args[0].One(), args[1].One()
		return Value{C: []*Term{Ite(Eq(e, Num(0)), Eq(t, Num(0)), App("Is", SBool, e, t))}}, true
	case "errors.As":
		e := args[0].One()
		tp := x.ptrOf(x.unboxPointer(args[1], cc.Args[1]))
		tt := pointee(tp)
		tn := typeName(tt)
		ok := And(Ne(e, Num(0)), App("AsT", SBool, e, Num(typeID(tt))))
		comps := Flatten(tt)
		val := Value{T: tt, C: make([]*Term, len(comps))}
		for k, c := range comps {
			val.C[k] = App(fmt.Sprintf("AsVal.%s.%d", tn, k), c.Sort, e)
		}
		x.assume(TTrue, Implies(ok, WFValue(val)), "type")
		x.assume(TTrue, Implies(ok, x.refsBelowClock(st, val)), "clock")
		if _, isIface := tt.Underlying().(*types.Interface); !isIface {
			// an error that is itself a T matches with its own value
			direct := And(Ne(e, Num(0)), Eq(App("dyntype", SInt, e), Num(typeID(tt))))
			var eqs []*Term
			for k, c := range comps {
				eqs = append(eqs, Eq(val.C[k], App(fmt.Sprintf("unbox.%s.%d", tn, k), c.Sort, e)))
			}
			x.assume(TTrue, Implies(direct, And(append(eqs, ok)...)), "errors.As on a direct match")
		} else {
			x.assume(TTrue, Implies(ok, Ne(val.C[0], Num(0))), "errors.As yields a non-nil interface")
		}
		old := x.load(st, tp)
		x.store(st, tp, valueIte(ok, val, old))
		return Value{C: []*Term{ok}}, true
	case "sync.(*Pool).Get":
		// the package's only pool holds *[bufSize]byte (New and every Put); content arbitrary
		var at types.Type
		for _, m := range x.P.Pkgs {
			if m.Pkg.Path() == modPath {
				bt := types.Universe.Lookup("byte").Type()
				at = types.NewArray(bt, 128)
				if cst, ok := m.Members["bufSize"].(*ssa.NamedConst); ok {
					n, _ := constant.Int64Val(cst.Value.Value)
					at = types.NewArray(bt, n)
				}
			}
		}
		pt := types.NewPointer(at)
		ref := st.newRef()
		bt := types.Universe.Lookup("byte").Type()
		setElemArr(st, bt, Flatten(bt)[0], ref, Fresh("poolbuf", sArrII))
		x.note("bufPool.Get modelled as a fresh *[bufSize]byte with arbitrary content")
		return x.makeInterface(st, Value{T: pt, C: []*Term{ref}}, cc.Signature().Results().At(0).Type()), true
	case "fmt.Sprintf", "fmt.Sprint":
		v := FreshValue("sprintf", types.Typ[types.String])
		x.assumeTrue(WFValue(v))
		x.note("fmt.Sprintf result is an arbitrary string")
		return v, true
	}
	return Value{}, false
}

// unboxPointer: errors.As receives its target as `any`; recover the pointer.
func (x *Exec) unboxPointer(v Value, arg ssa.Value) Value {
	if mi, ok := arg.(*ssa.MakeInterface); ok {
		if pv, ok := x.boxed[v.C[0]]; ok {
			_ = mi
			return pv
		}
	}
	fail("errors.As target is not a directly boxed pointer")
	return Value{}
}


// frameCheck: everything that existed at entry and is not named by the
// function's modifies clause is unchanged at exit. Emitted only when the
// contract declares a frame (callers of a frameless contract havoc everything).
func (x *Exec) frameCheck(f *frame, out *State) {
	c := x.C
	if c == nil || (len(c.Modifies) == 0 && !c.Pure) {
		return
	}
	entry := x.entryState
	hv := entry.clone()
	sc := x.newSpecCtx(f, nil, hv, nil)
	sc.body = false
	x.frameObligations("frame", f, entry, hv, sc, c.Modifies, out, Var(clockName, SInt))
}

// frameObligations: out may differ from entry only at the locations named by
// mods (evaluated in entry) and in objects allocated after entry.
func (x *Exec) frameObligations(kind string, f *frame, entry, hv *State, sc *specCtx, mods []*Clause, out *State, c0 *Term) {
	before := map[string]*Term{}
	for k, v := range hv.heap {
		before[k] = v
	}
	x.havocModifies(sc, mods, hv)
	var names []string
	for k := range out.heap {
		names = append(names, k)
	}
	sort.Strings(names)
	for _, name := range names {
		if name == clockName || strings.HasPrefix(name, "ghost.visited") {
			continue
		}
		cur := out.heap[name]
		ent := entry.region(name, cur.S)
		if cur == ent {
			continue
		}
		hav, touched := hv.heap[name]
		if _, had := before[name]; !had && touched {
			before[name] = ent
		}
		if touched && hav != before[name] && hav.Op == "var" {
			continue // whole region in the frame
		}
		if cur.S.Kind != 2 {
			x.oblige(kind, nil, out.pc, Eq(cur, ent), f.fn.Pos(), "unchanged outside the modifies clause: "+name)
			continue
		}
		r := BVar("r?fr", SInt)
		var goal *Term
		if touched && hav != before[name] {
			// indices named by modifies: walk the store chain of the havocked copy
			var outer []*Term
			type inner struct {
				ref  *Term
				idxs []*Term
			}
			var inners []inner
			t := hav
			for t != before[name] && t.Op == "store" {
				idx, val := t.Args[1], t.Args[2]
				// partial havoc of a nested array: store chain over select(base, idx)
				var idxs []*Term
				v := val
				for v.Op == "store" {
					idxs = append(idxs, v.Args[1])
					v = v.Args[0]
				}
				if len(idxs) > 0 && v.Op == "select" && v.Args[1] == idx {
					inners = append(inners, inner{idx, idxs})
				} else {
					outer = append(outer, idx)
				}
				t = t.Args[0]
			}
			if t != before[name] {
				continue // not a recognisable store chain: treated as wholly in the frame
			}
			cond := []*Term{Le(r, c0)}
			for _, o := range outer {
				cond = append(cond, Ne(r, o))
			}
			for _, in := range inners {
				cond = append(cond, Ne(r, in.ref))
			}
			goal = Implies(And(cond...), Eq(Select(cur, r), Select(ent, r)))
			for _, in := range inners {
				i := BVar("i?fr", SInt)
				ic := []*Term{Le(in.ref, c0)}
				for _, ix := range in.idxs {
					ic = append(ic, Ne(i, ix))
				}
				x.oblige(kind, nil, out.pc, Forall([]*Term{i}, Implies(And(ic...), Eq(Select(Select(cur, in.ref), i), Select(Select(ent, in.ref), i)))), f.fn.Pos(), "unchanged outside the modifies clause (elements): "+name)
			}
		} else {
			lo := Le(r, c0)
			if strings.HasPrefix(name, "elems.") {
				// no array lives at reference 0 (the nil slice): nothing readable there
				lo = And(Ne(r, Num(0)), lo)
			}
			goal = Implies(lo, Eq(Select(cur, r), Select(ent, r)))
		}
		x.oblige(kind, nil, out.pc, Forall([]*Term{r}, goal), f.fn.Pos(), "unchanged outside the modifies clause: "+name)
	}
}

// asAxiom: an error made by errors.New / fmt.Errorf / errors.Join is itself of a foreign
// type; errors.As finds a module type in it exactly when it finds it in a wrapped error.
func asAxiom(h *Term, wraps []*Term) *Term {
	t := BVar("t?as", SInt)
	var rhs []*Term
	for _, w := range wraps {
		rhs = append(rhs, And(Ne(w, Num(0)), App("AsT", SBool, w, t)))
	}
	return Forall([]*Term{t}, Implies(Gt(t, Num(0)), Eq(App("AsT", SBool, h, t), Or(rhs...))), App("AsT", SBool, h, t))
}

// sortSlice models sort.Slice(x, less) (assumed): the elements of x are
// permuted in place, and afterwards no later element is less than an earlier
// one. less must be a closure of the package under a pure contract whose
// result is defined by one clause `ensures <result> == E`; E is evaluated with
// the closure's variables bound at the call site.
func (x *Exec) sortSlice(f *frame, cc *ssa.CallCommon, args []Value, n *node, st *State, pos token.Pos) {
	mi, ok := cc.Args[0].(*ssa.MakeInterface)
	if !ok {
		fail("%s: sort.Slice on a value that is not a directly boxed slice", x.Key)
	}
	sv := f.get(mi.X, n, st)
	slt, ok := sv.T.Underlying().(*types.Slice)
	if !ok {
		fail("%s: sort.Slice on a non-slice", x.Key)
	}
	comps := Flatten(slt.Elem())
	if len(comps) != 1 || comps[0].Sort != SInt {
		fail("%s: sort.Slice over composite elements (outside the verified subset)", x.Key)
	}
	cl, ok := x.closures[args[1].C[0]]
	if !ok {
		fail("%s: sort.Slice with a less function that is not a closure made in place", x.Key)
	}
	c := x.S.Contracts[FuncKey(cl.fn)]
	if c == nil || !c.Pure {
		fail("%s: sort.Slice needs a pure contract on %s", x.Key, FuncKey(cl.fn))
	}
	ref, off, ln := sv.C[0], sv.C[1], sv.C[2]
	before := elemArr(st, slt.Elem(), comps[0], ref)
	after := Fresh("sorted", SArr(SInt))
	setElemArr(st, slt.Elem(), comps[0], ref, after)
	// quantifiers over absolute positions k of the backing array, so that any read of it triggers them
	hi := Add(off, ln)
	in := func(k *Term) *Term { return And(Le(off, k), Lt(k, hi)) }
	// (the part of the backing array outside the slice is left unconstrained: weaker than
	// Go's guarantee, hence sound, and it spares the solvers a quantifier over every index)
	// every element comes from the input
	i, j := BVar("i?so", SInt), BVar("j?so", SInt)
	x.assume(st.pc, Forall([]*Term{i}, Implies(in(i), Exists([]*Term{j}, And(in(j), Eq(Select(after, i), Select(before, j))))), Select(after, i)), "sort.Slice permutation")
	// (the converse, that no element is lost, is not stated: the two directions feed each
	// other's triggers without end, and no obligation here needs it)
	// ordered: for i < j not less(j, i)
	sig := cl.fn.Signature
	names := resultNames(c, sig)
	var def ast.Expr
	for _, e := range c.Ensures {
		if be, ok := e.Expr.(*ast.BinaryExpr); ok && be.Op == token.EQL {
			if id, ok := be.X.(*ast.Ident); ok && (id.Name == names[0] || id.Name == "result") {
				def = be.Y
			}
		}
	}
	if def == nil {
		fail("%s: the contract of %s does not define its result by `ensures %s == E`", x.Key, c.Key, names[0])
	}
	sc := x.newSpecCtx(nil, nil, st, nil)
	sc.body = false
	sc.pkg = x.pkgFor(c, cl.fn, f)
	it := types.Typ[types.Int]
	pn := []string{cl.fn.Params[0].Name(), cl.fn.Params[1].Name()}
	if len(c.Params) >= 2 {
		pn = c.Params[:2]
	}
	// in adjacent form (one bound variable: a two-variable trigger fires for every pair of reads):
	// no element is less than its predecessor, !less(k+1, k)
	sc.vars[pn[0]] = Value{T: it, C: []*Term{Sub(Add(i, Num(1)), off)}}
	sc.vars[pn[1]] = Value{T: it, C: []*Term{Sub(i, off)}}
	for q, fv := range cl.fn.FreeVars {
		sc.vars[fv.Name()] = cl.binds[q]
	}
	var lessNext *Term
	func() {
		defer func() {
			if r := recover(); r != nil {
				ee, ok := r.(*EngineError)
				if !ok {
					panic(r)
				}
				// the contract of less speaks of variables this closure does not capture (any more):
				// nothing is known about the order then, and whatever relies on it is left to fail
				x.note("sort.Slice: no order assumed, the contract of " + c.Key + " cannot be evaluated at the call (" + ee.Msg + ")")
			}
		}()
		lessNext = sc.evalBool(def)
	}()
	if lessNext != nil {
		x.assume(st.pc, Forall([]*Term{i}, Implies(And(Le(off, i), Lt(Add(i, Num(1)), hi)), Not(lessNext)), Select(after, i)), "sort.Slice order")
	}
	x.note("assumed: sort.Slice permutes the slice in place into an order with !less(k+1, k) for neighbours (less taken from the contract of " + c.Key + ")")
	_ = pos
}

// siteOrd numbers the sites of one kind (calls of one callee, sends/receives on
// one channel field) within a function in source order, so that `at call f#2`
// keeps meaning "the second call of f in the text" whatever the traversal order.
func (f *frame) siteOrd(key string, pos token.Pos) int {
	if f.sites == nil {
		f.sites = map[string][]token.Pos{}
		add := func(k string, p token.Pos) {
			if k == "" || !p.IsValid() {
				return
			}
			for _, q := range f.sites[k] {
				if q == p {
					return
				}
			}
			f.sites[k] = append(f.sites[k], p)
		}
		for _, b := range f.fn.Blocks {
			for _, in := range b.Instrs {
				switch i := in.(type) {
				case *ssa.Call:
					add(CalleeKey(i.Common()), i.Pos())
				case *ssa.Defer:
					add(CalleeKey(i.Common()), i.Pos())
				case *ssa.Go:
					add(CalleeKey(i.Common()), i.Pos())
				case *ssa.Send:
					add("send "+chanSiteName(i.Chan), i.Pos())
				case *ssa.UnOp:
					if i.Op == token.ARROW {
						add("recv "+chanSiteName(i.X), i.Pos())
					}
				case *ssa.Select:
					// the receiving cases of selects are sites of their own kind (selrecv), numbered apart from
					// the plain receives: rewriting a select into a plain receive must not renumber those
					for _, s := range i.States {
						if s.Dir == types.RecvOnly {
							add("selrecv "+chanSiteName(s.Chan), s.Pos)
						}
					}
				}
			}
		}
		for k := range f.sites {
			ps := f.sites[k]
			sort.Slice(ps, func(a, b int) bool { return ps[a] < ps[b] })
		}
	}
	for i, p := range f.sites[key] {
		if p == pos {
			return i + 1
		}
	}
	// a site the scan cannot key statically (call through a function value): traversal order
	f.callSeq[key]++
	return 1000 + f.callSeq[key]
}

func lastField(fld string) string {
	if j := strings.LastIndex(fld, "."); j >= 0 {
		return fld[j+1:]
	}
	return fld
}
