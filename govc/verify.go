package main

// Per-function verification: entry state, body, postconditions, discharge.

import (
	"fmt"
	"go/ast"
	"math/big"
	"os"
	"path/filepath"
	"runtime/debug"
	"sort"
	"strings"
	"sync"
	"time"

	"golang.org/x/tools/go/ssa"
)

// preludeParts: definitions and axioms included only when the symbol occurs
// (quantified axioms keep solvers from answering sat, so none is emitted
// unless needed).
var preludeParts = map[string]string{
	"streq": `(define-fun streq ((a (Array Int Int)) (ao Int) (al Int) (b (Array Int Int)) (bo Int) (bl Int)) Bool
  (and (= al bl) (forall ((k Int)) (=> (and (<= 0 k) (< k al)) (= (select a (+ ao k)) (select b (+ bo k)))))))
`,
	"Is": `(declare-fun Is (Int Int) Bool)
`,
	"bor": `(declare-fun bor (Int Int) Int)
`,
	"band": `(declare-fun band (Int Int) Int)
`,
	"bxor": `(declare-fun bxor (Int Int) Int)
`,
	"bandnot": `(declare-fun bandnot (Int Int) Int)
`,
}

func init() {
	for n := range preludeParts {
		builtinFuns[n] = true
	}
}

type FuncResult struct {
	Key   string
	Obls  []*Obligation
	Err   string
	Notes []string
	Secs  float64
	Props []string
}

// VerifyFunction generates and returns the obligations of one function.
func VerifyFunction(P *Program, S *Specs, key string) (res *FuncResult) {
	res = &FuncResult{Key: key}
	termBounds = map[*Term][2]*big.Int{} // bounds are facts of one function's symbolic values
	x := NewExec(P, S, key)
	x.closures = map[*Term]*closure{}
	x.usedFuncs = map[string]bool{}
	x.boxed = map[*Term]Value{}
	x.hitSites = map[string]bool{}
	x.reveal = map[string]bool{}
	if x.C != nil {
		for _, r := range x.C.Reveal {
			x.reveal[r] = true
		}
	}
	defer func() {
		if r := recover(); r != nil {
			if ee, ok := r.(*EngineError); ok {
				res.Err = ee.Msg
				if debugTrace {
					res.Err += "\n" + string(debug.Stack())
				}
			} else {
				res.Err = fmt.Sprintf("internal error: %v\n%s", r, debug.Stack())
			}
		}
		res.Obls = x.obls
		res.Notes = x.notes
	}()
	if x.Fn == nil {
		fail("no such function %s", key)
	}
	fn := x.Fn
	c := x.C
	if c != nil {
		for p := range c.Props {
			x.Props = append(x.Props, p)
		}
		sort.Strings(x.Props)
	}
	res.Props = x.Props
	st := &State{pc: TTrue, locals: map[*ssa.Alloc]Value{}, heap: map[string]*Term{}}
	x.assume(TTrue, Le(Num(0), st.clock()), "clock")
	var params, free []Value
	mkIn := func(name string, v ssa.Value) Value {
		val := FreshValue("in."+name, v.Type())
		x.assume(TTrue, WFValue(val), "type")
		x.assume(TTrue, x.refsBelowClock(st, val), "clock")
		x.inputs = append(x.inputs, val.C...)
		return val
	}
	for _, p := range fn.Params {
		params = append(params, mkIn(p.Name(), p))
	}
	for _, p := range fn.FreeVars {
		free = append(free, mkIn(p.Name(), p))
	}
	x.entryState = st.clone()
	// preconditions
	f0 := &frame{x: x, fn: fn, params: params, free: free}
	if c != nil {
		sc := x.newSpecCtx(f0, nil, st, nil)
		sc.body = false
		for _, r := range c.Requires {
			x.assume(TTrue, sc.evalBool(r.Expr), "requires")
		}
	}
	x.assumeGlobals(f0, st)
	x.entryState = st.clone()
	out, results := x.runBody(fn, c, params, free, st, 0)
	if c != nil {
		for site := range c.CallAsserts {
			if !x.hitSites[site] {
				fail("contract drift: %s has an assertion at call %s, but no such call site was reached", key, site)
			}
		}
		for site := range c.CallInterf {
			if !x.hitSites["interference "+site] {
				fail("contract drift: %s declares interference at call %s, but no such call site was reached", key, site)
			}
		}
	}
	if out != nil {
		if c != nil {
			sc := x.newSpecCtx(f0, nil, out, x.entryState)
			sc.body = false
			names := resultNames(c, fn.Signature)
			for i, v := range results {
				v.T = fn.Signature.Results().At(i).Type()
				if i < len(names) {
					sc.vars[names[i]] = v
				}
				if len(results) == 1 {
					sc.vars["result"] = v
				}
			}
			for k, e := range c.Ensures {
				// cover: the antecedent of a conditional postcondition must be reachable
				if ce, ok := e.Expr.(*ast.CallExpr); ok {
					if id, ok := ce.Fun.(*ast.Ident); ok && id.Name == "implies" && len(ce.Args) == 2 {
						ante := sc.evalBool(ce.Args[0])
						co := x.oblige("cover", e.Tags, And(out.pc, ante), TFalse, fn.Pos(), "reachable: "+exprString(ce.Args[0]))
						co.IsCanary = true
						co.Name = fmt.Sprintf("%s/cover#%d", x.Key, k+1)
						co.FileID = k + 1
						if e.Label != "" {
							co.Name = fmt.Sprintf("%s/cover#%s", x.Key, e.Label)
						}
					}
				}
			}
			// postconditions are discharged per return statement (smaller queries than on the merged exit)
			for ri, rs := range x.topRets {
				rsc := x.newSpecCtx(f0, nil, rs.st, x.entryState)
				rsc.body = false
				for i, v := range rs.res {
					v.T = fn.Signature.Results().At(i).Type()
					if i < len(names) {
						rsc.vars[names[i]] = v
					}
					if len(rs.res) == 1 {
						rsc.vars["result"] = v
					}
				}
				for k, e := range c.Ensures {
					g := rsc.evalBool(e.Expr)
					pos := rs.pos
					if !pos.IsValid() {
						pos = fn.Pos()
					}
					o := x.oblige("ensures", e.Tags, rs.st.pc, g, pos, e.Text)
					o.Reveal = e.Reveal
					o.By = e.By
					o.Slow = e.Slow
					o.Name = fmt.Sprintf("%s/ensures#%d", x.Key, k+1)
					if e.Label != "" {
						o.Name = fmt.Sprintf("%s/ensures#%s", x.Key, e.Label)
					}
					// (several clauses may share a label: the query files are told apart by return site and clause)
					o.FileID = (ri+1)*1000 + k + 1
					o.Node = rs.n
				}
			}
		}
		x.frameCheck(f0, out)
		o := x.oblige("canary", nil, out.pc, TFalse, fn.Pos(), "the exit of the function is reachable under its preconditions")
		o.IsCanary = true
	}
	return res
}

// assumeGlobals: facts about immutable package-level variables and axioms.
func (x *Exec) assumeGlobals(f *frame, st *State) {
	sc := x.newSpecCtx(f, nil, st, nil)
	sc.body = false
	// facts about package-level variables are stated in the scope of the root package
	for _, p := range x.P.Pkgs {
		if p.Pkg.Path() == modPath {
			sc.pkg = p.Pkg
		}
	}
	for _, g := range x.S.Globals {
		x.assume(TTrue, sc.evalBool(g.Expr), "global")
	}
	for _, a := range x.S.Axioms {
		x.assume(TTrue, sc.evalBool(a.Expr), "axiom")
	}
}

// SMT renders the query of one obligation.
func (o *Obligation) SMT() string {
	x := o.Exec
	var s Script
	saved := x.reveal
	if len(o.Reveal) > 0 {
		x.hitSites = map[string]bool{}
		x.reveal = map[string]bool{}
		for k, b := range saved {
			x.reveal[k] = b
		}
		for _, r := range o.Reveal {
			x.reveal[r] = true
		}
	}
	defer func() { x.reveal = saved }()
	goal := []*Term{o.PC}
	if !o.IsCanary {
		goal = append(goal, Not(o.Goal))
	}
	pool := x.assumes[:o.NAssume]
	if o.Node != nil {
		// path-conditional facts from nodes that do not reach this one cannot matter
		kept := make([]Assumption, 0, len(pool))
		for _, a := range pool {
			if a.Node == nil || ancestorOf(a.Node, o.Node) {
				kept = append(kept, a)
			}
		}
		pool = kept
	}
	var goalVals map[string]bool
	if o.near {
		goalVals = valueSyms(o.Goal)
	}
	for _, a := range coneOfInfluence(pool, goal) {
		if (o.IsCanary || o.relaxed) && hasQuantifier(a.Fact) {
			continue // reachability is checked against the quantifier-free part
		}
		if o.lemmas && hasQuantifier(a.Fact) {
			// second attempt: of the quantified facts only those the clause names (by=<id> of a body assertion)
			named := false
			for _, b := range o.By {
				if a.Label == b {
					named = true
				}
			}
			if !named {
				continue
			}
		}
		if o.near && hasQuantifier(a.Fact) {
			// first attempt: only the quantified facts that speak about a value the goal mentions
			hit := false
			for sym := range valueSyms(a.Fact) {
				if goalVals[sym] {
					hit = true
					break
				}
			}
			if !hit {
				continue
			}
		}
		s.Asserts = append(s.Asserts, Implies(a.PC, a.Fact))
	}
	s.Asserts = append(s.Asserts, goal...)
	s.Defs = x.specFuncDefs
	if !o.IsCanary && !o.relaxed {
		s.Raw = func(used map[string]bool) string {
			var b strings.Builder
			for _, ra := range x.S.RawAxioms {
				if used[ra.Need] {
					b.WriteString("(assert " + ra.Text + ")\n")
					x.note("axiom (lemma, see " + ra.Src + "): " + ra.Need)
				}
			}
			return b.String()
		}
	}
	return s.String(x.inputs)
}

type Discharger struct {
	Dir     string
	Timeout int
	All     bool
	Workers int
}

func (d *Discharger) Run(obls []*Obligation) {
	var wg sync.WaitGroup
	ch := make(chan *Obligation)
	for w := 0; w < d.Workers; w++ {
		wg.Add(1)
		go func() {
			defer wg.Done()
			for o := range ch {
				t0 := time.Now()
				d.solveOne(o)
				o.Wall = time.Since(t0).Seconds()
			}
		}()
	}
	d.feed(obls, ch)
	close(ch)
	wg.Wait()
	d.modelSearch(obls)
}

var (
	fileOwnerMu sync.Mutex
	fileOwner   = map[string]*Obligation{}
)

// solveOne discharges one obligation, fewer assumptions first.
func (d *Discharger) solveOne(o *Obligation) {
	for once := true; once; once = false {
		fname := strings.NewReplacer("/", "_", "(", "", ")", "", "*", "", "$", "_", "#", "-", "@", "-").Replace(o.Name)
		if o.FileID > 0 {
			fname += fmt.Sprintf(".r%d", o.FileID)
		}
		// no two obligations may share a query file (workers write and solvers read them concurrently)
		fileOwnerMu.Lock()
		for k := 0; ; k++ {
			cand := fname
			if k > 0 {
				cand = fmt.Sprintf("%s.d%d", fname, k)
			}
			if owner, taken := fileOwner[d.Dir+"/"+cand]; !taken || owner == o {
				fileOwner[d.Dir+"/"+cand] = o
				fname = cand
				break
			}
		}
		fileOwnerMu.Unlock()
		// staged: fewer assumptions first (a refutation from a subset of the assumptions is
		// a refutation), the full set last; only the full query can give a model
		if !o.IsCanary {
			if o.smtQF != "" {
				t := d.Timeout
				if t > 5 {
					t = 5
				}
				r := Solve(d.Dir, fname+".qf", o.smtQF, t, false)
				if r.Answer == "unsat" {
					r.Solver += " (quantifier-free part)"
					o.Res = r
					continue
				}
				if r.Answer == "sat" {
					o.qfModel = r.Model
				}
			}
			if o.smtLemmas != "" {
				r := Solve(d.Dir, fname+".lemmas", o.smtLemmas, d.Timeout, d.All)
				if r.Answer == "unsat" {
					r.Solver += " (by the named assertions)"
					o.Res = r
					continue
				}
			}
			if o.smtNear != "" {
				tn := d.Timeout
				if tn > 4 {
					tn = 4 // a shortcut, not the last word: the full query follows
				}
				r := Solve(d.Dir, fname+".near", o.smtNear, tn, d.All)
				if r.Answer == "unsat" {
					r.Solver += " (nearby quantified facts)"
					o.Res = r
					continue
				}
			}
		}
		t := d.Timeout
		if o.IsCanary && t < 40 {
			t = 40 // a model of a whole path can take one solver a while; nothing else waits for it
		}
		o.Res = Solve(d.Dir, fname, o.smtText, t, d.All)
	}
}

// feed renders the queries (not thread-safe, hence here) and hands the obligations to the workers.
func (d *Discharger) feed(obls []*Obligation, ch chan *Obligation) {
	for _, o := range obls {
		if o.Goal.IsTrue() && !o.IsCanary {
			o.Res = SolveResult{Answer: "unsat", Solver: "simplifier"}
			continue
		}
		func() {
			defer func() {
				if r := recover(); r != nil {
					o.Res = SolveResult{Answer: "error", Raw: fmt.Sprint(r)}
				}
			}()
			o.smtText = o.SMT()
			if !o.IsCanary {
				o.relaxed = true
				o.smtQF = o.SMT()
				o.relaxed = false
				if o.smtQF == o.smtText {
					o.smtQF = "" // nothing quantified among the assumptions
				} else {
					if len(o.By) > 0 {
						o.lemmas = true
						o.smtLemmas = o.SMT()
						o.lemmas = false
						if o.smtLemmas == o.smtText || o.smtLemmas == o.smtQF {
							o.smtLemmas = ""
						}
					}
					o.near = true
					o.smtNear = o.SMT()
					o.near = false
					if o.smtNear == o.smtText || o.smtNear == o.smtQF {
						o.smtNear = ""
					}
				}
			}
		}()
		if o.smtText == "" {
			continue
		}
		ch <- o
	}
}

func (d *Discharger) modelSearch(obls []*Obligation) {
	// model search: failed obligations without a model are retried with the
	// quantified assumptions dropped; a model found this way is only a candidate
	// (it is validated by replay on the real code).
	var retry []*Obligation
	for _, o := range obls {
		if !o.IsCanary && o.Exec != nil && (o.Res.Answer == "unknown" || o.Res.Answer == "timeout") {
			retry = append(retry, o)
		}
	}
	for _, o := range retry {
		if o.qfModel != "" {
			o.Res.Model = o.qfModel
			o.RelaxedModel = true
			continue
		}
		o.relaxed = true
		txt := o.SMT()
		o.relaxed = false
		fname := strings.NewReplacer("/", "_", "(", "", ")", "", "*", "", "$", "_", "#", "-", "@", "-").Replace(o.Name) + fmt.Sprintf(".r%d.relaxed", o.FileID)
		r := Solve(d.Dir, fname, txt, d.Timeout, false)
		if r.Answer == "sat" {
			o.Res.Model = r.Model
			o.RelaxedModel = true
		}
	}
}

func writeFileMk(path, content string) {
	os.MkdirAll(filepath.Dir(path), 0o755)
	os.WriteFile(path, []byte(content), 0o644)
}

var _ = time.Now

// valueSyms: the non-array variables of a term (symbolic values, as opposed to heap regions).
var valMemo = map[*Term]map[string]bool{}

func valueSyms(t *Term) map[string]bool {
	if m, ok := valMemo[t]; ok {
		return m
	}
	m := map[string]bool{}
	seen := map[*Term]bool{}
	var walk func(x *Term)
	walk = func(x *Term) {
		if seen[x] {
			return
		}
		seen[x] = true
		// (parameters and the allocation clock occur everywhere: they say nothing about nearness)
		if x.Op == "var" && (x.S == SInt || x.S == SBool) && !strings.HasPrefix(x.Name, "in.") && !strings.HasPrefix(x.Name, "$clock") && !strings.HasPrefix(x.Name, "clock!") {
			m[x.Name] = true
		}
		if d, ok := namedDef[x]; ok {
			walk(d) // a name stands for the values of the term it abbreviates
		}
		for _, a := range x.Args {
			walk(a)
		}
	}
	walk(t)
	valMemo[t] = m
	return m
}

// symbolsOf collects variable and function names of a term (memoised).
var symMemo = map[*Term]map[string]bool{}

func symbolsOf(t *Term) map[string]bool {
	if m, ok := symMemo[t]; ok {
		return m
	}
	m := map[string]bool{}
	seen := map[*Term]bool{}
	var walk func(x *Term)
	walk = func(x *Term) {
		if seen[x] {
			return
		}
		seen[x] = true
		if x.Op == "var" || x.Op == "app" {
			m[x.Name] = true
		}
		for _, a := range x.Args {
			walk(a)
		}
	}
	walk(t)
	symMemo[t] = m
	return m
}

// coneOfInfluence keeps the assumptions connected to the goal through shared
// symbols (dropping assumptions can only weaken the query, never prove more).
func coneOfInfluence(as []Assumption, goal []*Term) []Assumption {
	cone := map[string]bool{}
	for _, g := range goal {
		for s := range symbolsOf(g) {
			cone[s] = true
		}
	}
	type item struct {
		a    Assumption
		syms map[string]bool
		in   bool
	}
	items := make([]*item, len(as))
	for i, a := range as {
		m := map[string]bool{}
		for s := range symbolsOf(a.Fact) {
			m[s] = true
		}
		for s := range symbolsOf(a.PC) {
			m[s] = true
		}
		items[i] = &item{a: a, syms: m}
	}
	changed := true
	for changed {
		changed = false
		for _, it := range items {
			if it.in {
				continue
			}
			if it.a.Need != "" && !cone[it.a.Need] {
				continue
			}
			hit := len(it.syms) == 0
			for s := range it.syms {
				if cone[s] && !commonSymbol(s) {
					hit = true
					break
				}
			}
			if hit {
				it.in = true
				changed = true
				for s := range it.syms {
					cone[s] = true
				}
			}
		}
	}
	var out []Assumption
	for _, it := range items {
		if it.in {
			out = append(out, it.a)
		}
	}
	return out
}

// commonSymbol: symbols that would connect everything (not used for linking).
func commonSymbol(s string) bool {
	return s == clockName || s == "Is" || s == "dyntype"
}

var quantMemo = map[*Term]bool{}

func hasQuantifier(t *Term) bool {
	if v, ok := quantMemo[t]; ok {
		return v
	}
	r := t.Op == "forall" || t.Op == "exists"
	if t.Op == "app" && t.Name == "streq" {
		r = true
	}
	for _, a := range t.Args {
		if r {
			break
		}
		r = hasQuantifier(a)
	}
	quantMemo[t] = r
	return r
}
