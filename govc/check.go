package main

// `govc check`: decide one property — collect the functions under contract
// for it, generate and discharge their obligations, classify failures against
// the known-findings file, replay counterexamples, write evidence.

import (
	"crypto/md5"
	"encoding/json"
	"flag"
	"fmt"
	"go/types"
	"os"
	"os/exec"
	"path/filepath"
	"regexp"
	"sort"
	"strconv"
	"strings"
	"time"
)

type KnownFinding struct {
	Property   string `json:"property"`
	Obligation string `json:"obligation"`
	What       string `json:"what"`
	ID         string `json:"id"`
}

type FixedFinding struct {
	Property string `json:"property"`
	Commit   string `json:"commit"`
	What     string `json:"what"`
}

type KnownFile struct {
	Known []KnownFinding `json:"known"`
	Fixed []FixedFinding `json:"fixed"`
}

type Evidence struct {
	PropertyID  string         `json:"property_id"`
	Tier        string         `json:"tier"`
	Seed        int            `json:"seed"`
	Level       string         `json:"level"`
	Coverage    map[string]any `json:"coverage"`
	Assumptions []string       `json:"assumptions"`
	WallS       float64        `json:"wall_s"`
	Violations  int            `json:"violations"`
}

var outRoot = "/verif"

func hasTag(tags []string, p string) bool {
	for _, t := range tags {
		if t == p {
			return true
		}
	}
	return false
}

// mainReplay: govc replay <file.replay.json> re-examines one reported violation on the current tree: the
// obligation is generated and discharged again, and where the function has a replay driver, the driver is run
// on the real code with the recorded input. Exit 1 when the violation is still there, 0 when it is gone.
func mainReplay(args []string) {
	if len(args) < 2 {
		fmt.Fprintln(os.Stderr, "usage: govc replay <file.replay.json>")
		os.Exit(2)
	}
	data, err := os.ReadFile(args[1])
	if err != nil {
		fmt.Fprintln(os.Stderr, err)
		os.Exit(2)
	}
	var rep map[string]any
	if err := json.Unmarshal(data, &rep); err != nil {
		fmt.Fprintln(os.Stderr, "not a replay file:", err)
		os.Exit(2)
	}
	fn, _ := rep["function"].(string)
	name, _ := rep["obligation"].(string)
	prop, _ := rep["property"].(string)
	fmt.Printf("replay of %s (property %s) in %s\n  clause: %v\n  recorded answer: %v by %v\n", name, prop, fn, rep["clause"], rep["answer"], rep["solver"])
	if out, ok := rep["solver_output"].(string); ok && out != "" {
		fmt.Printf("  recorded solver output: %s\n", out)
	}
	still := false
	P, err := LoadProgram(repoDir)
	must(err)
	S, err := loadSpecs()
	must(err)
	if P.Funcs[fn] == nil {
		fmt.Printf("  the function %s no longer exists\n", fn)
	} else {
		r := VerifyFunction(P, S, fn)
		if r.Err != "" {
			fmt.Printf("  the contract of %s no longer fits the code: %s\n", fn, oneLine(r.Err))
		}
		var sel []*Obligation
		for _, o := range r.Obls {
			if o.Name == name {
				sel = append(sel, o)
			}
		}
		tmp, _ := os.MkdirTemp("", "govc-replay")
		defer os.RemoveAll(tmp)
		d := &Discharger{Dir: tmp, Timeout: 60, Workers: 4}
		d.Run(sel)
		if len(sel) == 0 {
			fmt.Printf("  no obligation of that name is generated now\n")
		}
		for _, o := range sel {
			fmt.Printf("  now: %s %s (%s) %s\n", o.Name, o.Res.Answer, o.Res.Solver, o.Src)
			if o.Res.Answer != "unsat" {
				still = true
			}
		}
	}
	if drv := replayDriverFor(fn); drv != "" {
		tmp, _ := os.MkdirTemp("", "govc-replay")
		defer os.RemoveAll(tmp)
		ok, out := runReplayDriverOnce(drv, filepath.Join(tmp, "replay.json"), rep)
		fmt.Printf("  driver %s on the real code: %s\n", filepath.Base(drv), lastLine(out))
		if ok {
			still = true
		}
	}
	if still {
		fmt.Printf("VIOLATION property=%s replay=%s\n", prop, args[1])
		os.Exit(1)
	}
	fmt.Println("not reproduced on the current tree")
	os.Exit(0)
}

func mainCheck(args []string) {
	if len(args) > 0 && args[0] == "replay" {
		mainReplay(args)
	}
	if len(args) == 0 || args[0] != "check" {
		fmt.Fprintln(os.Stderr, "unknown command")
		os.Exit(2)
	}
	fs := flag.NewFlagSet("check", flag.ExitOnError)
	prop := fs.String("property", "", "property id")
	tier := fs.String("tier", "quick", "quick|thorough")
	fs.Parse(args[1:])
	if t := os.Getenv("VERIF_TIER"); t == "quick" || t == "thorough" {
		*tier = t
	}
	seed, _ := strconv.Atoi(os.Getenv("VERIF_SEED"))
	os.Exit(runCheck(*prop, *tier, seed))
}

func runCheck(prop, tier string, seed int) int {
	t0 := time.Now()
	if d := os.Getenv("GOVC_OUTROOT"); d != "" {
		outRoot = d
	}
	outDir := filepath.Join(outRoot, "out", prop)
	os.RemoveAll(outDir)
	os.MkdirAll(outDir, 0o755)
	undecided := func(reason string) int {
		fmt.Printf("UNDECIDED property=%s reason=%s\n", prop, reason)
		return 2
	}
	P, err := LoadProgram(repoDir)
	if err != nil {
		return undecided("load: " + oneLine(err.Error()))
	}
	S, err := loadSpecs()
	if err != nil {
		return undecided("contracts: " + oneLine(err.Error()))
	}
	var known KnownFile
	if data, err := os.ReadFile(filepath.Join(verifDir, "known_findings.json")); err == nil {
		if err := json.Unmarshal(data, &known); err != nil {
			return undecided("known_findings.json: " + err.Error())
		}
	}
	// functions under contract for this property
	var keys []string
	for k, c := range S.Contracts {
		if c.Props[prop] && !c.Trusted && !c.Unverified {
			keys = append(keys, k)
		}
	}
	sort.Strings(keys)
	timeout := 10
	if tier == "thorough" {
		timeout = 120
	}
	var all []*Obligation
	var results []*FuncResult
	skippedSlow := 0
	notes := map[string]bool{}
	var engineErrs []string
	for _, k := range keys {
		if P.Funcs[k] == nil {
			engineErrs = append(engineErrs, "contract drift: no function "+k)
			continue
		}
		r := VerifyFunction(P, S, k)
		results = append(results, r)
		if r.Err != "" {
			engineErrs = append(engineErrs, k+": "+oneLine(r.Err))
		}
		for _, n := range r.Notes {
			notes[n] = true
		}
		for _, o := range r.Obls {
			if o.Slow && tier != "thorough" {
				skippedSlow++
				continue
			}
			if len(o.Props) == 0 || hasTag(o.Props, prop) || o.IsCanary {
				all = append(all, o)
			}
		}
	}
	// lemmas
	evidenceSpecs = S
	lemmaObls := lemmaObligations(S, prop)
	d := &Discharger{Dir: filepath.Join(outDir, "smt"), Timeout: timeout, Workers: 12, All: tier == "thorough"}
	d.Run(all)
	// an obligation without a definite answer gets a second, unhurried attempt before it counts as
	// failed: a loaded machine must not turn into an alarm
	if tier != "thorough" {
		var again []*Obligation
		for _, o := range all {
			if !o.IsCanary && (o.Res.Answer == "unknown" || o.Res.Answer == "timeout") {
				again = append(again, o)
			}
		}
		if len(again) > 0 && len(again) <= 40 {
			d2 := &Discharger{Dir: d.Dir, Timeout: 60, Workers: 6}
			d2.Run(again)
			for _, o := range again {
				if o.Res.Answer == "unsat" {
					o.Res.Solver += " (second attempt, 60 s)"
					fmt.Printf("note: %s needed the second attempt (%.1fs)\n", o.Name, o.Res.Secs)
				}
			}
		}
	}
	if os.Getenv("GOVC_TIMES") != "" {
		for _, o := range all {
			if o.Wall > 3 {
				fmt.Printf("time: %5.1fs %s (%s, %s)\n", o.Wall, o.Name, o.Res.Answer, o.Res.Solver)
			}
		}
	}
	runLemmas(lemmaObls, d)
	all = append(all, lemmaObls...)

	if len(engineErrs) > 0 {
		for _, e := range engineErrs {
			fmt.Printf("ENGINE: %s\n", e)
		}
		// functions whose contract no longer fits the code produce no obligations; a failed obligation of
		// another function is still a finding of its own, so go on and report those, and stay undecided otherwise
		anyFailed := false
		for _, o := range all {
			if !o.IsCanary && o.Res.Answer != "unsat" && o.Res.Answer != "" {
				anyFailed = true
			}
		}
		if !anyFailed {
			writeEvidence(prop, tier, seed, all, keys, notes, 0, nil, time.Since(t0), "engine error: "+strings.Join(engineErrs, "; "))
			return undecided(engineErrs[0])
		}
	}
	// classify
	bySolver := map[string]int{}
	var solverSecs, maxSecs float64
	discharged, counted := 0, 0
	violations := 0
	var knownHit []map[string]any
	var failed []*Obligation
	var vacuous []string
	for _, o := range all {
		ans := o.Res.Answer
		if o.IsCanary {
			if ans != "sat" {
				vacuous = append(vacuous, fmt.Sprintf("%s (%s)", o.Name, ans))
			}
			continue
		}
		if ans == "error" {
			fmt.Printf("ENGINE: solver error on %s: %s\n", o.Name, oneLine(o.Res.Raw))
			return undecided("solver error on " + o.Name)
		}
		solverSecs += o.Res.Secs
		if o.Res.Secs > maxSecs {
			maxSecs = o.Res.Secs
		}
		if ans == "unsat" {
			counted++
			discharged++
			bySolver[o.Res.Solver]++
			continue
		}
		// failed: known finding?
		matched := false
		for _, k := range known.Known {
			if k.Property == prop && k.Obligation == o.Name {
				fmt.Printf("KNOWN-FINDING: property=%s %s (%s: %s)\n", prop, k.What, k.ID, o.Name)
				knownHit = append(knownHit, map[string]any{"id": k.ID, "obligation": o.Name, "answer": ans, "what": k.What, "solver_output": firstLines(o.Res.Raw, 6)})
				matched = true
			}
		}
		if matched {
			continue
		}
		counted++
		failed = append(failed, o)
	}
	for _, o := range failed {
		violations++
		path := filepath.Join(outDir, sanitize(o.Name)+".replay.json")
		reproduced, detail := writeReplay(path, prop, o)
		suffix := ""
		if !reproduced {
			suffix = " no-failing-input-found"
		}
		fmt.Printf("VIOLATION property=%s replay=%s%s\n", prop, path, suffix)
		fmt.Printf("  obligation %s (%s) %s: %s\n  %s\n", o.Name, o.Res.Answer, o.Src, o.Text, detail)
	}
	// thorough tier: the replay drivers of the property's functions as bounded sweeps of the real code against
	// their independent reference models (bounded: stated in each driver; never counted as proof)
	var sweeps []map[string]any
	if tier == "thorough" && os.Getenv("GOVC_NOSWEEP") == "" && os.Getenv("GOVC_REPO") == "" {
		seen := map[string]bool{}
		for _, k := range keys {
			drv := replayDriverFor(k)
			if drv == "" {
				continue
			}
			data, _ := os.ReadFile(drv)
			sum := fmt.Sprintf("%x", md5.Sum(data))
			if seen[sum] {
				continue
			}
			seen[sum] = true
			path := filepath.Join(outDir, "sweep-"+sanitize(k)+".replay.json")
			rep := map[string]any{"property": prop, "obligation": "bounded sweep of " + k, "function": k, "kind": "sweep", "inputs": map[string]any{}}
			ok, out := runReplayDriverOnce(drv, path, rep)
			rep["replay_output"] = out
			rep["reproduced"] = ok
			d2, _ := json.MarshalIndent(rep, "", " ")
			writeFileMk(path, string(d2))
			sweeps = append(sweeps, map[string]any{"driver": filepath.Base(drv), "function": k, "result": lastLine(out), "deviation_found": ok})
			if ok {
				violations++
				fmt.Printf("VIOLATION property=%s replay=%s\n  bounded sweep of %s on the real code: %s\n", prop, path, k, lastLine(out))
			}
		}
	}
	stats := map[string]any{"bounded_sweeps": sweeps, "slow_obligations_left_to_thorough_tier": skippedSlow, "by_solver": bySolver, "solver_time_s": round2(solverSecs), "max_obligation_s": round2(maxSecs), "known_findings": knownHit}
	if tier == "thorough" && violations == 0 && os.Getenv("GOVC_NOSELFTEST") == "" && os.Getenv("GOVC_REPO") == "" {
		stats["selftest"] = runSelftest(prop)
	}
	writeEvidence(prop, tier, seed, all, keys, notes, violations, stats, time.Since(t0), "")
	fmt.Printf("property %s: %d functions under contract, %d obligations, %d discharged, %d known findings, %d violations, %.1fs\n",
		prop, len(keys), counted, discharged, len(knownHit), violations, time.Since(t0).Seconds())
	if violations > 0 {
		return 1
	}
	if len(vacuous) > 0 {
		for _, v := range vacuous {
			fmt.Printf("ENGINE: reachability check not satisfiable: %s — a precondition, assumption or clause antecedent is contradictory or no longer reachable\n", v)
		}
		return undecided("vacuous clause: " + vacuous[0])
	}
	if counted == 0 {
		return undecided("no obligations generated (vacuity guard)")
	}
	return 0
}

// runSelftest (thorough tier): the property's quick check against scratch copies of the tree with each
// must-fail change (reverse of the repairs, hand-made mutants, the seeded change) and each must-pass
// change (behaviour-preserving edits) applied. The outcome is evidence about the check's strength; it
// never turns into a violation of the tree under test.
func runSelftest(prop string) map[string]any {
	res := map[string]any{}
	var mustFail, mustPass []string
	ms, _ := filepath.Glob(filepath.Join(verifDir, "selftest", "mutants", prop+"-*.diff"))
	mustFail = append(mustFail, ms...)
	if p := filepath.Join(verifDir, "seeded", prop, "patch.diff"); fileExists(p) {
		mustFail = append(mustFail, p)
	}
	hs, _ := filepath.Glob(filepath.Join(verifDir, "selftest", "harmless", "*.diff"))
	mustPass = append(mustPass, hs...)
	self, _ := os.Executable()
	run := func(patch string) (int, string) {
		tmp, err := os.MkdirTemp("", "govc-selftest")
		if err != nil {
			return -1, err.Error()
		}
		defer os.RemoveAll(tmp)
		repo := filepath.Join(tmp, "repo")
		if out, err := exec.Command("rsync", "-a", "--exclude", ".git", repoDir+"/", repo+"/").CombinedOutput(); err != nil {
			return -1, string(out)
		}
		cmd := exec.Command("patch", "-p1", "-s", "-i", patch)
		cmd.Dir = repo
		if out, err := cmd.CombinedOutput(); err != nil {
			return -2, "patch does not apply: " + oneLine(string(out))
		}
		c := exec.Command(self, "check", "--property", prop, "--tier", "quick")
		c.Env = append(os.Environ(), "GOVC_REPO="+repo, "GOVC_OUTROOT="+filepath.Join(tmp, "o"))
		out, _ := c.CombinedOutput()
		code := 0
		if c.ProcessState != nil {
			code = c.ProcessState.ExitCode()
		}
		var keep []string
		for _, ln := range strings.Split(string(out), "\n") {
			if strings.HasPrefix(ln, "VIOLATION") || strings.HasPrefix(ln, "UNDECIDED") {
				keep = append(keep, strings.ReplaceAll(ln, tmp, "<scratch>"))
			}
		}
		if len(keep) > 3 {
			keep = keep[:3]
		}
		return code, strings.Join(keep, " | ")
	}
	var fails, passes []map[string]any
	missed, alarms := 0, 0
	for _, p := range mustFail {
		code, out := run(p)
		fails = append(fails, map[string]any{"change": filepath.Base(filepath.Dir(p)) + "/" + filepath.Base(p), "exit": code, "report": out})
		if code == 0 {
			missed++
			fmt.Printf("SELFTEST: property=%s the change %s is not reported by the quick check\n", prop, p)
		}
	}
	for _, p := range mustPass {
		code, out := run(p)
		if code == -2 {
			continue
		}
		passes = append(passes, map[string]any{"change": filepath.Base(p), "exit": code, "report": out})
		if code == 1 {
			alarms++
			fmt.Printf("SELFTEST: property=%s the behaviour-preserving change %s raises an alarm\n", prop, p)
		}
	}
	res["must_fail"] = fails
	res["must_pass"] = passes
	res["must_fail_not_reported"] = missed
	res["must_pass_alarms"] = alarms
	return res
}

func fileExists(p string) bool { _, err := os.Stat(p); return err == nil }

func round2(f float64) float64 { return float64(int(f*100+0.5)) / 100 }

func sanitize(s string) string {
	return regexp.MustCompile(`[^A-Za-z0-9_.#-]+`).ReplaceAllString(s, "_")
}

func oneLine(s string) string {
	s = strings.ReplaceAll(s, "\n", " / ")
	if len(s) > 400 {
		s = s[:400] + "…"
	}
	return s
}

// parseModel reads a (get-value ...) answer into name -> value text.
func parseModel(m string) map[string]string {
	out := map[string]string{}
	re := regexp.MustCompile(`\(\s*([^\s()|]+|\|[^|]*\|)\s+(\(- \d+\)|-?\d+|true|false)\)`)
	for _, mm := range re.FindAllStringSubmatch(m, -1) {
		v := mm[2]
		if strings.HasPrefix(v, "(- ") {
			v = "-" + strings.TrimSuffix(v[3:], ")")
		}
		out[strings.Trim(mm[1], "|")] = v
	}
	return out
}

// writeReplay stores the failed obligation with the solver's answer and, when
// there is a model and a driver for the function, replays it on the real code.
func writeReplay(path, prop string, o *Obligation) (bool, string) {
	rep := map[string]any{
		"property":      prop,
		"obligation":    o.Name,
		"function":      o.Func,
		"kind":          o.Kind,
		"source":        o.Src,
		"clause":        o.Text,
		"answer":        o.Res.Answer,
		"solver":        o.Res.Solver,
		"answers":       o.Res.Answers,
		"solver_output": firstLines(o.Res.Raw, 40),
		"smt_file":      filepath.Join(filepath.Dir(path), "smt", strings.NewReplacer("/", "_", "(", "", ")", "", "*", "", "$", "_", "#", "-", "@", "-").Replace(o.Name)+".smt2"),
	}
	reproduced := false
	detail := "no solver model (" + o.Res.Answer + "); the failed obligation is reported as such"
	if o.Res.Answer == "sat" || o.RelaxedModel {
		if o.RelaxedModel {
			rep["model_note"] = "candidate model from the quantifier-free relaxation of the query (the full query answered " + o.Res.Answer + ")"
		}
		model := parseModel(o.Res.Model)
		rep["model"] = model
		if in := concreteInputs(o, model, filepath.Dir(path)); in != nil {
			rep["inputs"] = in
		}
		rep["model_raw"] = firstLines(o.Res.Model, 60)
		detail = "solver model written; no replay driver for " + o.Func
	}
	if drv := replayDriverFor(o.Func); drv != "" {
		// the driver replays the model's input when there is one and always runs its bounded search on the real code
		ok, out := runReplayDriver(drv, path, rep)
		rep["replay_output"] = out
		reproduced = ok
		if ok {
			detail = "failing input found by replay on the real code: " + lastLine(out)
		} else {
			detail = "replay on the real code found no failing input: " + lastLine(out)
		}
	}
	rep["reproduced"] = reproduced
	data, _ := json.MarshalIndent(rep, "", " ")
	writeFileMk(path, string(data))
	return reproduced, detail
}

func lastLine(s string) string {
	ls := strings.Split(strings.ReplaceAll(strings.TrimSpace(s), " / ", "\n"), "\n")
	for i := len(ls) - 1; i >= 0; i-- {
		if strings.Contains(ls[i], "REPLAY") {
			return strings.TrimSpace(ls[i])
		}
	}
	return strings.TrimSpace(ls[len(ls)-1])
}

// replayDriverFor finds /verif/replay/drivers/<name>_test.go for a function key.
func replayDriverFor(key string) string {
	name := key
	prefix := ""
	if strings.HasPrefix(name, "mqtttest.") {
		prefix = "mt_"
	}
	if i := strings.LastIndex(name, ")."); i >= 0 {
		name = name[i+2:]
	} else if i := strings.Index(name, "."); i >= 0 {
		name = name[i+1:]
	}
	name = prefix + sanitize(strings.ReplaceAll(name, "$", "_"))
	p := filepath.Join(verifDir, "replay", "drivers", name+"_test.go")
	if _, err := os.Stat(p); err == nil {
		return p
	}
	return ""
}

// runReplayDriver injects the driver into the package with -overlay and runs it.
var driverCache = map[string][2]any{}

func runReplayDriver(driver, replayPath string, rep map[string]any) (bool, string) {
	// one run per driver and model input within a check (several obligations of a function often fail together)
	ck := driver + "|" + fmt.Sprint(rep["inputs"])
	if c, ok := driverCache[ck]; ok {
		data, _ := json.MarshalIndent(rep, "", " ")
		writeFileMk(replayPath, string(data))
		return c[0].(bool), c[1].(string)
	}
	ok, out := runReplayDriverOnce(driver, replayPath, rep)
	driverCache[ck] = [2]any{ok, out}
	return ok, out
}

func runReplayDriverOnce(driver, replayPath string, rep map[string]any) (bool, string) {
	data, _ := json.MarshalIndent(rep, "", " ")
	writeFileMk(replayPath, string(data))
	pkgDir := repoDir
	if strings.Contains(filepath.Base(driver), "mt_") {
		pkgDir = filepath.Join(repoDir, "mqtttest")
	}
	target := filepath.Join(pkgDir, "zz_govc_replay_test.go")
	ov := map[string]any{"Replace": map[string]string{target: driver}}
	ovData, _ := json.Marshal(ov)
	ovPath := replayPath + ".overlay.json"
	os.WriteFile(ovPath, ovData, 0o644)
	cmd := exec.Command("go", "test", "-overlay", ovPath, "-vet=off", "-count=1", "-timeout", "120s", "-v", "-run", "^TestGovcReplay$", ".")
	cmd.Dir = pkgDir
	cmd.Env = append(os.Environ(), "GOVC_REPLAY="+replayPath, "GOFLAGS=-mod=mod", "GOPROXY=off", "GOSUMDB=off", "GOTOOLCHAIN=local")
	out, _ := cmd.CombinedOutput()
	s := string(out)
	return strings.Contains(s, "REPLAY: reproduced"), firstLines(s, 30)
}

func writeEvidence(prop, tier string, seed int, all []*Obligation, keys []string, notes map[string]bool, violations int, stats map[string]any, wall time.Duration, problem string) {
	n, dis := 0, 0
	var samples []map[string]any
	vac := 0
	for _, o := range all {
		if o.IsCanary {
			continue
		}
		n++
		if o.Res.Answer == "unsat" {
			dis++
		}
		if len(samples) < 12 || o.Res.Answer != "unsat" && len(samples) < 40 {
			samples = append(samples, map[string]any{"obligation": o.Name, "kind": o.Kind, "clause": trunc(o.Text, 160), "source": o.Src, "answer": o.Res.Answer, "solver": o.Res.Solver, "secs": round2(o.Res.Secs), "smt_bytes": len(o.smtText)})
		}
	}
	// known findings are excluded from both counts
	kf := 0
	if stats != nil {
		if l, ok := stats["known_findings"].([]map[string]any); ok {
			kf = len(l)
		}
	}
	var trusted, assumptions []string
	for k := range notes {
		if strings.HasPrefix(k, "assumed contract: ") {
			trusted = append(trusted, strings.TrimPrefix(k, "assumed contract: "))
		} else {
			assumptions = append(assumptions, k)
		}
	}
	// preconditions of the functions under contract: obligations at in-package call sites, assumptions for callers outside
	if evidenceSpecs != nil {
		for _, k := range keys {
			if c := evidenceSpecs.Contracts[k]; c != nil {
				for _, r := range c.Requires {
					assumptions = append(assumptions, "precondition of "+k+" (checked at every call site inside the package, assumed for callers outside): "+trunc(r.Text, 300))
				}
				if c.Unverified {
					assumptions = append(assumptions, "contract of "+k+" is used by its callers but its body is not discharged (unverified)")
				}
			}
		}
	}
	byKind := map[string]int{}
	byFunc := map[string]int{}
	var lemmas []string
	for _, o := range all {
		if o.IsCanary {
			continue
		}
		byKind[o.Kind]++
		byFunc[o.Func]++
		if o.Kind == "lemma" {
			lemmas = append(lemmas, o.Name+": "+o.Res.Answer+" ("+o.Res.Solver+")")
		}
	}
	if evidenceSpecs != nil {
		// axioms and global facts of the specification files are assumed in every function
		for _, a := range evidenceSpecs.Axioms {
			assumptions = append(assumptions, "axiom ("+filepath.Base(a.Src)+"): "+a.Text)
		}
		for _, g := range evidenceSpecs.Globals {
			assumptions = append(assumptions, "global fact ("+filepath.Base(g.Src)+"): "+g.Text)
		}
	}
	sort.Strings(trusted)
	sort.Strings(assumptions)
	trusted = append(trusted, "go/ssa (x/tools v0.29.0) translation of the Go source", "SMT solvers z3 4.8.12, z3 5.1.0, cvc5 1.0.x", "govc VC generator (this framework)")
	assumptions = append(assumptions,
		"partial correctness: termination is not proved",
		"a pointer parameter to a struct is not interior to another parameter's object",
		"package-level variables are immutable after init",
		"machine integers are modelled as mathematical integers with explicit wrap-around at the width of their Go type (not assumed away); shifts, masks and bit-or with constants exactly, other bit operations uninterpreted",
		"no slice, string or channel buffer holds more than 2^48 elements (sums of a few lengths do not overflow int)",
		"one goroutine at a time: interference from other goroutines only through the declared channel content invariants and rely clauses (stable / onclosed / recvinv), which are assumptions here",
	)
	cov := map[string]any{
		"obligations":              n - kf,
		"discharged":               dis,
		"checker_cmd":              fmt.Sprintf("bin/govc check --property %s --tier %s", prop, tier),
		"trusted_base":             trusted,
		"functions_under_contract": keys,
		"samples":                  samples,
		"vacuous":                  vac,
		"explanation":              "Each obligation is a verification condition generated from the SSA of the function in /repo's working tree and its contract (weakest-precondition style symbolic execution with state merging, loops cut at invariants or unrolled with an unwinding obligation), discharged (unsat of the negation) by z3 5.1.0, z3 4.8.12 or cvc5 raced per obligation, in stages: quantifier-free assumptions, then the quantified facts named by by= hints, then those about values the goal mentions, then all (a refutation from a subset of the assumptions is a refutation). Lemma obligations are self-contained SMT scripts behind the raw axioms. Obligations matched by a known finding are excluded from both counts.",
		"obligations_by_kind":      byKind,
		"obligations_by_function":  byFunc,
		"lemmas":                   lemmas,
	}
	for k, v := range stats {
		cov[k] = v
	}
	if problem != "" {
		cov["problem"] = problem
	}
	ev := Evidence{PropertyID: prop, Tier: tier, Seed: seed, Level: "proof", Coverage: cov, Assumptions: assumptions, WallS: round2(wall.Seconds()), Violations: violations}
	data, _ := json.MarshalIndent(ev, "", " ")
	writeFileMk(filepath.Join(outRoot, "evidence", prop+".json"), string(data))
}

var evidenceSpecs *Specs

// ---- lemmas: self-contained SMT obligations from the spec files ----

func lemmaObligations(S *Specs, prop string) []*Obligation {
	var out []*Obligation
	for _, l := range S.Lemmas {
		if !hasTag(l.Tags, prop) || l.Script == "" {
			continue
		}
		o := &Obligation{Name: "lemma/" + l.Name, Kind: "lemma", Func: "lemma", Props: l.Tags, Goal: TFalse, PC: TTrue, Src: l.Src, Text: "lemma " + l.Name}
		o.smtText = "(set-logic ALL)\n" + l.Script + "(check-sat)\n"
		out = append(out, o)
	}
	return out
}

func runLemmas(obls []*Obligation, d *Discharger) {
	for _, o := range obls {
		o.Res = Solve(d.Dir, sanitize(o.Name), o.smtText, d.Timeout, d.All)
	}
}

// concreteInputs turns the solver model into concrete values of the function's
// parameters: integers directly, strings / byte and integer slices by a second
// query that asks the same solver model for their elements (bounded: at most
// 4096 elements per value; longer values keep their length and are zero-filled
// by the drivers).
func concreteInputs(o *Obligation, model map[string]string, dir string) map[string]any {
	x := o.Exec
	if x == nil || x.Fn == nil {
		return nil
	}
	out := map[string]any{}
	type ask struct {
		name string
		n    int
		term func(k int) string
	}
	var asks []ask
	geti := func(name string) (int64, bool) {
		v, ok := model[name]
		if !ok {
			return 0, false
		}
		n, err := strconv.ParseInt(v, 10, 64)
		return n, err == nil
	}
	for i, p := range x.Fn.Params {
		base := fmt.Sprintf("in.%s!%d", p.Name(), i+1)
		// find the actual index used by FreshValue (prefix count)
		for cand := 1; cand < 40; cand++ {
			b := fmt.Sprintf("in.%s!%d", p.Name(), cand)
			found := false
			for k := range model {
				if k == b || strings.HasPrefix(k, b+".") {
					found = true
				}
			}
			if found {
				base = b
				break
			}
		}
		switch t := p.Type().Underlying().(type) {
		case *types.Basic:
			if t.Info()&types.IsString != 0 {
				ln, ok := geti(base + ".len")
				if !ok {
					continue
				}
				out[p.Name()+".len"] = ln
				if ln <= 4096 {
					b := base
					asks = append(asks, ask{p.Name(), int(ln), func(k int) string {
						return fmt.Sprintf("(select %s (+ %s %d))", symName(b+".arr"), symName(b+".off"), k)
					}})
				}
			} else if v, ok := model[base]; ok {
				out[p.Name()] = v
			}
		case *types.Slice:
			ln, ok := geti(base + ".len")
			if !ok {
				continue
			}
			out[p.Name()+".len"] = ln
			if ref, ok := geti(base + ".ref"); ok {
				out[p.Name()+".nil"] = ref == 0
			}
			et := t.Elem()
			if len(Flatten(et)) == 1 && ln <= 4096 {
				b := base
				reg := symName(elemsBase(et))
				asks = append(asks, ask{p.Name(), int(ln), func(k int) string {
					return fmt.Sprintf("(select (select %s %s) (+ %s %d))", reg, symName(b+".ref"), symName(b+".off"), k)
				}})
			}
		default:
			if v, ok := model[base]; ok {
				out[p.Name()] = v
			}
		}
	}
	if len(asks) == 0 {
		return out
	}
	// second query
	txt := o.smtText
	if i := strings.LastIndex(txt, "(get-value"); i >= 0 {
		txt = txt[:i]
	}
	var b strings.Builder
	b.WriteString(txt)
	b.WriteString("(get-value (")
	total := 0
	for _, a := range asks {
		for k := 0; k < a.n; k++ {
			b.WriteString(a.term(k) + " ")
			total++
		}
	}
	b.WriteString("))\n")
	if total == 0 {
		for _, a := range asks {
			out[a.name] = []int64{}
		}
		return out
	}
	file := filepath.Join(dir, "smt", "replay-elems.smt2")
	os.MkdirAll(filepath.Dir(file), 0o755)
	os.WriteFile(file, []byte(b.String()), 0o644)
	solver := o.Res.Solver
	if solver == "" || solver == "cvc5" {
		solver = "z3-new"
	}
	res, err := exec.Command("timeout", "60", solver, "-T:50", file).CombinedOutput()
	if err != nil && len(res) == 0 {
		return out
	}
	s := string(res)
	if !strings.HasPrefix(strings.TrimSpace(s), "sat") {
		return out // e.g. the array region is not declared in this query: elements stay unknown
	}
	vals := regexp.MustCompile(`\)\s+(\(- \d+\)|-?\d+)\)`).FindAllStringSubmatch(s, -1)
	idx := 0
	for _, a := range asks {
		var elems []int64
		for k := 0; k < a.n && idx < len(vals); k++ {
			v := vals[idx][1]
			idx++
			if strings.HasPrefix(v, "(- ") {
				v = "-" + strings.TrimSuffix(v[3:], ")")
			}
			n, _ := strconv.ParseInt(v, 10, 64)
			elems = append(elems, n)
		}
		out[a.name] = elems
	}
	return out
}
