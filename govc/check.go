package main

import "fmt"

func mainCheck(args []string) { fmt.Println("not implemented", args) }
