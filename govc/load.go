package main

import (
	"fmt"
	"go/ast"
	"go/token"
	"go/types"
	"os"
	"sort"
	"strings"

	"golang.org/x/tools/go/packages"
	"golang.org/x/tools/go/ssa"
	"golang.org/x/tools/go/ssa/ssautil"
)

type Program struct {
	Fset  *token.FileSet
	Prog  *ssa.Program
	Pkgs  []*ssa.Package
	PPkgs []*packages.Package
	Funcs map[string]*ssa.Function // by contract key
	Files map[string]*ast.File
}

const modPath = "github.com/pascaldekloe/mqtt"

// LoadProgram loads /repo (root package and mqtttest) with -tags verif and
// builds naive-form SSA with debug references.
func LoadProgram(dir string) (*Program, error) {
	os.Setenv("GOFLAGS", "-mod=mod")
	os.Setenv("GOPROXY", "off")
	os.Setenv("GOSUMDB", "off")
	os.Setenv("GOTOOLCHAIN", "local")
	cfg := &packages.Config{Mode: packages.LoadAllSyntax, Dir: dir, BuildFlags: []string{"-tags=verif"}}
	pkgs, err := packages.Load(cfg, "./", "./mqtttest")
	if err != nil {
		return nil, err
	}
	for _, p := range pkgs {
		if len(p.Errors) > 0 {
			return nil, fmt.Errorf("package %s: %v", p.PkgPath, p.Errors[0])
		}
	}
	prog, spkgs := ssautil.AllPackages(pkgs, ssa.NaiveForm|ssa.GlobalDebug)
	prog.Build()
	P := &Program{Fset: prog.Fset, Prog: prog, Funcs: map[string]*ssa.Function{}, Files: map[string]*ast.File{}, PPkgs: pkgs}
	for _, sp := range spkgs {
		if sp == nil || !strings.HasPrefix(sp.Pkg.Path(), modPath) {
			continue
		}
		P.Pkgs = append(P.Pkgs, sp)
	}
	for fn := range ssautil.AllFunctions(prog) {
		if fn.Pkg == nil || !strings.HasPrefix(fn.Pkg.Pkg.Path(), modPath) {
			continue
		}
		if fn.Synthetic != "" && fn.Parent() == nil {
			// wrappers, bound methods, init
			if fn.Name() != "init" {
				continue
			}
		}
		P.Funcs[FuncKey(fn)] = fn
	}
	scanGlobalInits(P)
	return P, nil
}

func shortPkg(p *types.Package) string {
	if p == nil {
		return ""
	}
	return p.Name()
}

// FuncKey gives the contract key of a function: "pkg.Name",
// "pkg.(*T).Name", "pkg.T.Name", closures "outer$N".
func FuncKey(fn *ssa.Function) string {
	if fn.Parent() != nil {
		// anonymous function: name is outer$N already
		return FuncKey(fn.Parent()) + fn.Name()[strings.LastIndex(fn.Name(), "$"):]
	}
	pkg := ""
	if fn.Pkg != nil {
		pkg = fn.Pkg.Pkg.Name()
	} else if fn.Object() != nil && fn.Object().Pkg() != nil {
		pkg = fn.Object().Pkg().Name()
	}
	if recv := fn.Signature.Recv(); recv != nil {
		t := recv.Type()
		star := ""
		if p, ok := t.(*types.Pointer); ok {
			t = p.Elem()
			star = "*"
		}
		name := t.String()
		if n, ok := t.(*types.Named); ok {
			name = n.Obj().Name()
			if n.Obj().Pkg() != nil {
				pkg = n.Obj().Pkg().Name()
			}
		}
		if star != "" {
			return fmt.Sprintf("%s.(*%s).%s", pkg, name, fn.Name())
		}
		return fmt.Sprintf("%s.%s.%s", pkg, name, fn.Name())
	}
	return pkg + "." + fn.Name()
}

// CalleeKey names the static callee or interface method of a call.
func CalleeKey(c *ssa.CallCommon) string {
	if c.IsInvoke() {
		t := c.Value.Type()
		name := t.String()
		if n, ok := t.(*types.Named); ok {
			name = n.Obj().Name()
			if n.Obj().Pkg() != nil {
				name = n.Obj().Pkg().Name() + "." + name
			}
		}
		return name + "." + c.Method.Name()
	}
	if fn := c.StaticCallee(); fn != nil {
		return FuncKey(fn)
	}
	if b, ok := c.Value.(*ssa.Builtin); ok {
		return "builtin." + b.Name()
	}
	return ""
}

func sortedKeys[V any](m map[string]V) []string {
	var ks []string
	for k := range m {
		ks = append(ks, k)
	}
	sort.Strings(ks)
	return ks
}
