package main

// Instruction rules.

import (
	"fmt"
	"go/constant"
	"go/token"
	"go/types"
	"math/big"

	"golang.org/x/tools/go/ssa"
)

func (x *Exec) constValue(c *ssa.Const) Value {
	t := c.Type()
	if c.Value == nil {
		// zero value / nil
		return ZeroValue(t)
	}
	switch c.Value.Kind() {
	case constant.Bool:
		return Value{T: t, C: []*Term{Bool(constant.BoolVal(c.Value))}}
	case constant.Int:
		bi, ok := new(big.Int).SetString(c.Value.ExactString(), 10)
		if !ok {
			fail("bad int constant %s", c.Value)
		}
		if b, ok := t.Underlying().(*types.Basic); ok && b.Info()&types.IsFloat != 0 {
			return Value{T: t, C: []*Term{NumB(bi)}}
		}
		return Value{T: t, C: []*Term{NumB(bi)}}
	case constant.String:
		return x.stringConst(constant.StringVal(c.Value), t)
	case constant.Float:
		return Value{T: t, C: []*Term{Fresh("float", SInt)}}
	}
	fail("unsupported constant %v", c)
	return Value{}
}

var strConsts = map[string]*Term{}

func (x *Exec) stringConst(s string, t types.Type) Value {
	arr, ok := strConsts[s]
	if !ok {
		arr = Var(fmt.Sprintf("str.%d", len(strConsts)), sArrII)
		strConsts[s] = arr
	}
	if len(s) <= 64 {
		for i := 0; i < len(s); i++ {
			x.assumeTrue(Eq(Select(arr, Num(int64(i))), Num(int64(s[i]))))
		}
	}
	return Value{T: t, C: []*Term{arr, Num(0), Num(int64(len(s)))}}
}

func (x *Exec) globalValue(g *ssa.Global, path []int) Value {
	t := deref(g.Type())
	comps := Flatten(t)
	v := Value{T: t, C: make([]*Term, len(comps))}
	name := "global." + g.Pkg.Pkg.Name() + "." + g.Name()
	for i, c := range comps {
		v.C[i] = Var(name+c.Suffix, c.Sort)
	}
	x.assumeTrue(WFValue(v))
	x.assumeTrue(x.globalBelowClock(v))
	qn := qualGlobal(g)
	if _, isIface := t.Underlying().(*types.Interface); isIface {
		x.sentinelFacts(qn)
	}
	if _, isSlice := t.Underlying().(*types.Slice); isSlice {
		x.globalSliceFacts(qn, v, nil)
	}
	if len(path) > 0 {
		lo, hi, ft := compRange(t, path)
		return Value{T: ft, C: v.C[lo:hi]}
	}
	return v
}

// globals exist before any allocation of the verified function
func (x *Exec) globalBelowClock(v Value) *Term {
	var fs []*Term
	for i, c := range Flatten(v.T) {
		if c.Sort == SInt && c.T == nil && !hasAnySuffix(c.Suffix, ".off", ".len", ".cap") {
			fs = append(fs, Le(v.C[i], Var(clockName, SInt)))
		}
	}
	return And(fs...)
}

func isUnsigned(t types.Type) bool {
	b, ok := t.Underlying().(*types.Basic)
	return ok && b.Info()&types.IsUnsigned != 0
}

func bitsOf(t types.Type) int {
	lo, hi, ok := intRange(t)
	if !ok {
		return 64
	}
	n := new(big.Int).Sub(hi, lo)
	return n.BitLen()
}

// toUnsigned maps a value of integer type t to its two's complement bit pattern.
func toUnsigned(v *Term, t types.Type) *Term {
	if isUnsigned(t) {
		return v
	}
	return Mod(v, NumB(Pow2(bitsOf(t))))
}

func fromUnsigned(u *Term, t types.Type) *Term { return Wrap(u, t) }

// maskAnd computes u & c for constant c >= 0 exactly (u >= 0): every run of
// set bits [i, j) contributes (u mod 2^j) - (u mod 2^i).
func maskAnd(u *Term, c *big.Int) *Term {
	if c.Sign() == 0 {
		return Num(0)
	}
	res := Num(0)
	n := c.BitLen()
	i := 0
	for i < n {
		if c.Bit(i) == 0 {
			i++
			continue
		}
		j := i
		for j < n && c.Bit(j) == 1 {
			j++
		}
		part := Mod(u, NumB(Pow2(j)))
		if i > 0 {
			part = Sub(part, Mod(u, NumB(Pow2(i))))
		}
		res = Add(res, part)
		i = j
	}
	return res
}

func (x *Exec) binop(op token.Token, a, b Value, rt types.Type, pc *Term, pos token.Pos) Value {
	t := a.T
	one := func(r *Term) Value { return Value{T: rt, C: []*Term{r}} }
	ub, isBasic := t.Underlying().(*types.Basic)
	if isBasic && ub.Info()&types.IsString != 0 {
		switch op {
		case token.EQL:
			return one(x.stringEq(a, b))
		case token.NEQ:
			return one(Not(x.stringEq(a, b)))
		case token.ADD:
			x.note("string concatenation result is abstract")
			v := FreshValue("concat", rt)
			x.assumeTrue(WFValue(v))
			x.assumeTrue(Eq(v.C[2], Add(a.C[2], b.C[2])))
			return v
		}
		fail("unsupported string operator %s", op)
	}
	if _, isSlice := t.Underlying().(*types.Slice); isSlice && (op == token.EQL || op == token.NEQ) {
		// slices compare with nil only: nil iff the data pointer is nil
		o := a
		if a.C[0].IsInt() && a.C[0].Int.Sign() == 0 {
			o = b
		}
		r := Eq(o.C[0], Num(0))
		if op == token.NEQ {
			r = Not(r)
		}
		return one(r)
	}
	switch op {
	case token.EQL:
		return one(valueEq(a, b))
	case token.NEQ:
		return one(Not(valueEq(a, b)))
	}
	if isBasic && ub.Info()&types.IsBoolean != 0 {
		fail("unsupported bool operator %s", op)
	}
	if !isBasic || ub.Info()&types.IsInteger == 0 {
		if isBasic && ub.Info()&types.IsFloat != 0 {
			return Value{T: rt, C: []*Term{Fresh("float", SInt)}}
		}
		fail("unsupported operand type %v for %s", t, op)
	}
	p, q := a.One(), b.One()
	switch op {
	case token.LSS:
		return one(Lt(p, q))
	case token.LEQ:
		return one(Le(p, q))
	case token.GTR:
		return one(Gt(p, q))
	case token.GEQ:
		return one(Ge(p, q))
	case token.ADD:
		return one(Wrap(Add(p, q), t))
	case token.SUB:
		return one(Wrap(Sub(p, q), t))
	case token.MUL:
		return one(Wrap(Mul(p, q), t))
	case token.QUO, token.REM:
		x.oblige("divzero", nil, pc, Ne(q, Num(0)), pos, "division by zero")
		if isUnsigned(t) {
			if op == token.QUO {
				return one(Div(p, q))
			}
			return one(Mod(p, q))
		}
		// truncated division
		absq := Ite(Lt(q, Num(0)), Neg(q), q)
		absp := Ite(Lt(p, Num(0)), Neg(p), p)
		qq := Div(absp, absq)
		neg := Ne(Lt(p, Num(0)), Lt(q, Num(0)))
		quo := Ite(neg, Neg(qq), qq)
		if op == token.QUO {
			return one(Wrap(quo, t))
		}
		return one(Sub(p, Mul(quo, q)))
	case token.SHL, token.SHR:
		if !q.IsInt() {
			x.note("shift by a non-constant amount is uninterpreted")
			return one(x.uninterp("shift."+op.String(), t, p, q))
		}
		k := int(q.Int.Int64())
		w := bitsOf(t)
		if k >= w {
			if op == token.SHL || isUnsigned(t) {
				return one(Num(0))
			}
			return one(Ite(Lt(p, Num(0)), Num(-1), Num(0)))
		}
		if op == token.SHL {
			return one(Wrap(Mul(p, NumB(Pow2(k))), t))
		}
		return one(Div(p, NumB(Pow2(k))))
	case token.AND, token.OR, token.XOR, token.AND_NOT:
		// distribute over a choice between constants: x op ite(c, k1, k2)
		if q.Op == "ite" && q.Args[1].IsInt() && q.Args[2].IsInt() {
			l := x.binop(op, a, Value{T: b.T, C: []*Term{q.Args[1]}}, rt, pc, pos)
			r := x.binop(op, a, Value{T: b.T, C: []*Term{q.Args[2]}}, rt, pc, pos)
			return one(Ite(q.Args[0], l.One(), r.One()))
		}
		var cst *big.Int
		var u *Term
		if q.IsInt() {
			cst, u = q.Int, toUnsigned(p, t)
		} else if p.IsInt() && op != token.AND_NOT {
			cst, u = p.Int, toUnsigned(q, t)
		}
		if cst != nil {
			if cst.Sign() < 0 {
				cst = new(big.Int).Mod(cst, Pow2(bitsOf(t)))
			}
			and := maskAnd(u, cst)
			var r *Term
			switch op {
			case token.AND:
				r = and
			case token.AND_NOT:
				r = Sub(u, and)
			case token.OR:
				r = Sub(Add(u, NumB(cst)), and)
			case token.XOR:
				r = Sub(Add(u, NumB(cst)), Mul(Num(2), and))
			}
			return one(fromUnsigned(r, t))
		}
		name := map[token.Token]string{token.AND: "band", token.OR: "bor", token.XOR: "bxor", token.AND_NOT: "bandnot"}[op]
		x.note("non-constant bit operation " + name + " is axiomatised (lemma/bitops)")
		r := App(name, SInt, p, q)
		x.assumeTrue(RangeFact(r, t))
		if name == "bor" {
			// ground instances of the bit-or axioms (proved in QF_BV: lemma/bitops)
			x.assumeTrue(Implies(Eq(p, Num(0)), Eq(r, q)))
			x.assumeTrue(Implies(Eq(q, Num(0)), Eq(r, p)))
			for _, k := range []int{7, 13, 14, 16, 21, 28} {
				m := NumB(Pow2(k))
				x.assumeTrue(Implies(And(Le(Num(0), p), Lt(p, m), Le(Num(0), q), Eq(Mod(q, m), Num(0))), Eq(r, Add(p, q))))
				x.assumeTrue(Implies(And(Le(Num(0), q), Lt(q, m), Le(Num(0), p), Eq(Mod(p, m), Num(0))), Eq(r, Add(p, q))))
			}
		}
		return one(r)
	}
	fail("unsupported binary operator %s", op)
	return Value{}
}

func (x *Exec) uninterp(name string, t types.Type, args ...*Term) *Term {
	r := App(name, SInt, args...)
	x.assumeTrue(RangeFact(r, t))
	return r
}

// stringEq: equal length and equal bytes.
func (x *Exec) stringEq(a, b Value) *Term {
	if a.C[2].IsInt() && a.C[2].Int.Sign() == 0 {
		return Eq(b.C[2], Num(0))
	}
	if b.C[2].IsInt() && b.C[2].Int.Sign() == 0 {
		return Eq(a.C[2], Num(0))
	}
	return App("streq", SBool, a.C[0], a.C[1], a.C[2], b.C[0], b.C[1], b.C[2])
}

func (x *Exec) convert(v Value, to types.Type) Value {
	from := v.T
	fb, fOK := from.Underlying().(*types.Basic)
	tb, tOK := to.Underlying().(*types.Basic)
	if fOK && tOK && fb.Info()&types.IsInteger != 0 && tb.Info()&types.IsInteger != 0 {
		return Value{T: to, C: []*Term{Wrap(v.One(), to)}}
	}
	if tOK && tb.Info()&types.IsFloat != 0 || fOK && fb.Info()&types.IsFloat != 0 {
		return Value{T: to, C: []*Term{Fresh("float", SInt)}}
	}
	return Value{}
}

// step executes one non-terminator instruction.
func (f *frame) step(in ssa.Instruction, n *node, st *State) *State {
	x := f.x
	set := func(v ssa.Value, val Value) {
		val.T = v.Type()
		f.setReg(v, n.Ctx, val)
	}
	switch i := in.(type) {
	case *ssa.DebugRef:
		return st
	case *ssa.Alloc:
		et := deref(i.Type())
		_, isArr := et.Underlying().(*types.Array)
		if !i.Heap && !isArr {
			st.locals[i] = ZeroValue(et)
			set(i, Value{P: &Ptr{Kind: PLocal, Alloc: i, RootT: et}})
			return st
		}
		ref := st.newRef()
		x.initObject(st, ref, et)
		set(i, Value{C: []*Term{ref}})
	case *ssa.Store:
		addr := f.get(i.Addr, n, st)
		val := f.get(i.Val, n, st)
		x.store(st, x.ptrOf(addr), val)
	case *ssa.UnOp:
		a := f.get(i.X, n, st)
		switch i.Op {
		case token.MUL:
			set(i, x.load(st, x.ptrOf(a)))
		case token.NOT:
			set(i, Value{C: []*Term{Not(a.One())}})
		case token.SUB:
			set(i, Value{C: []*Term{Wrap(Neg(a.One()), a.T)}})
		case token.XOR:
			u := toUnsigned(a.One(), a.T)
			all := new(big.Int).Sub(Pow2(bitsOf(a.T)), big.NewInt(1))
			set(i, Value{C: []*Term{fromUnsigned(Sub(NumB(all), u), a.T)}})
		case token.ARROW:
			return f.chanRecv(i, a, n, st)
		default:
			fail("unsupported unary operator %s", i.Op)
		}
	case *ssa.BinOp:
		a := f.get(i.X, n, st)
		b := f.get(i.Y, n, st)
		set(i, x.binop(i.Op, a, b, i.Type(), st.pc, i.Pos()))
	case *ssa.ChangeType:
		v := f.get(i.X, n, st)
		set(i, v)
	case *ssa.Convert:
		v := f.get(i.X, n, st)
		if r := x.convert(v, i.Type()); r.C != nil {
			set(i, r)
			break
		}
		set(i, x.convertSeq(st, v, i.Type(), i.Pos()))
	case *ssa.ChangeInterface:
		set(i, f.get(i.X, n, st))
	case *ssa.MakeInterface:
		set(i, x.makeInterface(st, f.get(i.X, n, st), i.Type()))
	case *ssa.Extract:
		tup := f.get(i.Tuple, n, st)
		tt := tup.T.(*types.Tuple)
		lo := 0
		for k := 0; k < i.Index; k++ {
			lo += len(Flatten(tt.At(k).Type()))
		}
		hi := lo + len(Flatten(tt.At(i.Index).Type()))
		set(i, Value{C: tup.C[lo:hi]})
	case *ssa.FieldAddr:
		p := x.ptrOf(f.get(i.X, n, st))
		np := *p
		np.Path = append(append([]int{}, p.Path...), i.Field)
		v := Value{P: &np}
		set(i, v)
	case *ssa.Field:
		sv := f.get(i.X, n, st)
		lo, hi, _ := compRange(sv.T, []int{i.Field})
		set(i, Value{C: sv.C[lo:hi]})
	case *ssa.IndexAddr:
		base := f.get(i.X, n, st)
		idx := f.get(i.Index, n, st).One()
		switch bt := base.T.Underlying().(type) {
		case *types.Slice:
			x.oblige("bounds", nil, st.pc, And(Le(Num(0), idx), Lt(idx, base.C[2])), i.Pos(), "index within slice length")
			set(i, Value{P: &Ptr{Kind: PElem, Ref: base.C[0], Idx: Add(base.C[1], idx), RootT: bt.Elem()}})
		case *types.Pointer:
			at := bt.Elem().Underlying().(*types.Array)
			p := x.ptrOf(base)
			if len(p.Path) != 0 || p.Kind != PObj {
				fail("array nested in a struct (outside the verified subset)")
			}
			x.oblige("bounds", nil, st.pc, And(Le(Num(0), idx), Lt(idx, Num(at.Len()))), i.Pos(), "index within array length")
			set(i, Value{P: &Ptr{Kind: PElem, Ref: p.Ref, Idx: idx, RootT: at.Elem()}})
		default:
			fail("IndexAddr on %v", base.T)
		}
	case *ssa.Index:
		base := f.get(i.X, n, st)
		idx := f.get(i.Index, n, st).One()
		if b, ok := base.T.Underlying().(*types.Basic); ok && b.Info()&types.IsString != 0 {
			x.oblige("bounds", nil, st.pc, And(Le(Num(0), idx), Lt(idx, base.C[2])), i.Pos(), "index within string length")
			r := Select(base.C[0], Add(base.C[1], idx))
			x.assumeTrue(And(Le(Num(0), r), Le(r, Num(255))))
			set(i, Value{C: []*Term{r}})
			break
		}
		fail("Index on %v", base.T)
	case *ssa.Slice:
		set(i, f.sliceExpr(i, n, st))
	case *ssa.MakeSlice:
		ln := f.get(i.Len, n, st).One()
		cp := f.get(i.Cap, n, st).One()
		x.oblige("makeslice", nil, st.pc, And(Le(Num(0), ln), Le(ln, cp)), i.Pos(), "make: 0 <= len <= cap")
		et := i.Type().Underlying().(*types.Slice).Elem()
		ref := st.newRef()
		for _, c := range Flatten(et) {
			setElemArr(st, et, c, ref, zeroOf(SArr(c.Sort)))
		}
		set(i, Value{C: []*Term{ref, Num(0), ln, cp}})
	case *ssa.Call:
		return f.call(i, i.Common(), n, st)
	case *ssa.Defer:
		d := deferEntry{instr: i, ctx: ctxKey(n.Ctx), guard: TTrue}
		if !i.Call.IsInvoke() {
			if _, isB := i.Call.Value.(*ssa.Builtin); !isB && i.Call.StaticCallee() == nil {
				d.fn = f.get(i.Call.Value, n, st)
			} else if mc, ok := i.Call.Value.(*ssa.MakeClosure); ok {
				d.fn = f.get(mc, n, st)
			}
		} else {
			d.fn = f.get(i.Call.Value, n, st)
		}
		if i.Call.IsInvoke() {
			d.args = append(d.args, d.fn)
		}
		for _, a := range i.Call.Args {
			d.args = append(d.args, f.get(a, n, st))
		}
		st.defers = append(st.defers, d)
	case *ssa.RunDefers:
		return f.runDefers(n, st)
	case *ssa.MakeClosure:
		fn := i.Fn.(*ssa.Function)
		cv := Value{C: []*Term{st.newRef()}}
		var binds []Value
		for _, b := range i.Bindings {
			binds = append(binds, f.get(b, n, st))
		}
		x.closures[cv.C[0]] = &closure{fn: fn, binds: binds}
		set(i, cv)
	case *ssa.Phi:
		// value depends on the incoming edge
		var cur *Value
		for k := len(n.Preds) - 1; k >= 0; k-- {
			e := n.Preds[k]
			if e.From.outs == nil || e.From.outs[e.Idx] == nil {
				continue
			}
			// find which predecessor block index this edge corresponds to
			pi := -1
			for j, pb := range n.B.Preds {
				if pb == e.From.B {
					pi = j
				}
			}
			v := f.get(i.Edges[pi], e.From, e.From.outs[e.Idx])
			if cur == nil {
				cur = &v
			} else {
				m := valueIte(e.From.outs[e.Idx].pc, v, *cur)
				cur = &m
			}
		}
		if cur == nil {
			fail("phi without reachable predecessor")
		}
		set(i, *cur)
	case *ssa.TypeAssert:
		return f.typeAssert(i, n, st)
	case *ssa.MakeMap:
		ref := st.newRef()
		mt := i.Type().Underlying().(*types.Map)
		x.mapInit(st, mt, ref)
		set(i, Value{C: []*Term{ref}})
	case *ssa.MapUpdate:
		f.mapUpdate(i, n, st)
	case *ssa.Lookup:
		f.lookup(i, n, st)
	case *ssa.MakeChan:
		sz := f.get(i.Size, n, st).One()
		ref := st.newRef()
		x.chanInit(st, i.Type(), ref, sz)
		set(i, Value{C: []*Term{ref}})
	case *ssa.Send:
		return f.chanSend(i, n, st)
	case *ssa.Select:
		return f.selectStmt(i, n, st)
	case *ssa.Go:
		x.note("go statement: spawned function verified separately, no effect in the parent")
	case *ssa.Range:
		f.rangeInit(i, n, st)
	case *ssa.Next:
		f.rangeNext(i, n, st)
	default:
		fail("%s: unsupported instruction %T: %s", FuncKey(f.fn), in, in)
	}
	return st
}

// initObject zero-initialises a fresh heap object of type t at ref.
func (x *Exec) initObject(st *State, ref *Term, t types.Type) {
	if at, ok := t.Underlying().(*types.Array); ok {
		for _, c := range Flatten(at.Elem()) {
			setElemArr(st, at.Elem(), c, ref, zeroOf(SArr(c.Sort)))
		}
		return
	}
	p := &Ptr{Kind: PObj, Ref: ref, RootT: t}
	x.store(st, p, ZeroValue(t))
}

func hasArrayField(t types.Type) bool {
	switch u := t.Underlying().(type) {
	case *types.Array:
		return true
	case *types.Struct:
		for i := 0; i < u.NumFields(); i++ {
			if hasArrayField(u.Field(i).Type()) {
				return true
			}
		}
	}
	return false
}

func (f *frame) sliceExpr(i *ssa.Slice, n *node, st *State) Value {
	x := f.x
	base := f.get(i.X, n, st)
	var lo, hi, mx *Term
	if i.Low != nil {
		lo = f.get(i.Low, n, st).One()
	} else {
		lo = Num(0)
	}
	if i.High != nil {
		hi = f.get(i.High, n, st).One()
	}
	if i.Max != nil {
		mx = f.get(i.Max, n, st).One()
	}
	switch bt := base.T.Underlying().(type) {
	case *types.Slice:
		if hi == nil {
			hi = base.C[2]
		}
		capv := base.C[3]
		if mx == nil {
			mx = capv
		}
		x.oblige("slice", nil, st.pc, And(Le(Num(0), lo), Le(lo, hi), Le(hi, mx), Le(mx, capv)), i.Pos(), "slice bounds within capacity")
		return Value{C: []*Term{base.C[0], Add(base.C[1], lo), Sub(hi, lo), Sub(mx, lo)}}
	case *types.Basic: // string
		if hi == nil {
			hi = base.C[2]
		}
		x.oblige("slice", nil, st.pc, And(Le(Num(0), lo), Le(lo, hi), Le(hi, base.C[2])), i.Pos(), "string slice bounds")
		return Value{C: []*Term{base.C[0], Add(base.C[1], lo), Sub(hi, lo)}}
	case *types.Pointer:
		at := bt.Elem().Underlying().(*types.Array)
		p := x.ptrOf(base)
		if len(p.Path) != 0 || p.Kind != PObj {
			fail("slice of an array nested in a struct (outside the verified subset)")
		}
		N := Num(at.Len())
		if hi == nil {
			hi = N
		}
		if mx == nil {
			mx = N
		}
		x.oblige("slice", nil, st.pc, And(Le(Num(0), lo), Le(lo, hi), Le(hi, mx), Le(mx, N)), i.Pos(), "slice bounds within array")
		return Value{C: []*Term{p.Ref, lo, Sub(hi, lo), Sub(mx, lo)}}
	}
	fail("Slice on %v", base.T)
	return Value{}
}

// convertSeq handles string <-> []byte conversions.
func (x *Exec) convertSeq(st *State, v Value, to types.Type, pos token.Pos) Value {
	_, fromStr := v.T.Underlying().(*types.Basic)
	if sl, ok := to.Underlying().(*types.Slice); ok && fromStr {
		// []byte(s): fresh backing holding the string's bytes at the same offsets
		ref := st.newRef()
		setElemArr(st, sl.Elem(), Flatten(sl.Elem())[0], ref, v.C[0])
		return Value{T: to, C: []*Term{ref, v.C[1], v.C[2], v.C[2]}}
	}
	if sl, ok := v.T.Underlying().(*types.Slice); ok {
		if tb, ok := to.Underlying().(*types.Basic); ok && tb.Info()&types.IsString != 0 {
			arr := elemArr(st, sl.Elem(), Flatten(sl.Elem())[0], v.C[0])
			return Value{T: to, C: []*Term{arr, v.C[1], v.C[2]}}
		}
	}
	if _, ok := to.Underlying().(*types.Basic); ok && fromStr {
		return v
	}
	fail("unsupported conversion %v -> %v", v.T, to)
	return Value{}
}
