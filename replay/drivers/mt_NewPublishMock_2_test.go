package mqtttest

// Replay driver for the mqtttest doubles: a recording testing.TB and a bounded enumeration of
// expectations x invocations (each field equal or different independently, surplus and missing calls).

import (
	"encoding/json"
	"errors"
	"fmt"
	"os"
	"testing"

	"github.com/pascaldekloe/mqtt"
)

var _ = errors.New
var _ = fmt.Sprint
var _ = mqtt.ErrCanceled

type govcTB struct {
	testing.TB
	reports  int
	cleanups []func()
}

func (r *govcTB) Helper()                         {}
func (r *govcTB) Errorf(string, ...any)           { r.reports++ }
func (r *govcTB) Error(...any)                    { r.reports++ }
func (r *govcTB) Fatalf(string, ...any)           { r.reports++; panic("fatal") }
func (r *govcTB) Cleanup(f func())                { r.cleanups = append(r.cleanups, f) }

func govcLoad(t *testing.T) {
	var r map[string]any
	data, err := os.ReadFile(os.Getenv("GOVC_REPLAY"))
	if err != nil {
		t.Skip("no replay file")
	}
	json.Unmarshal(data, &r)
}

func TestGovcReplay(t *testing.T) {
	govcLoad(t)
	msgs := [][]byte{[]byte("m1"), []byte("m2")}
	topics := []string{"t1", "t2"}
	tried := 0
	for nwant := 0; nwant <= 2; nwant++ {
		for ncall := 0; ncall <= 3; ncall++ {
			// each call: message index, topic index (0 = as expected, 1 = different)
			for code := 0; code < 1<<(2*ncall); code++ {
				rec := &govcTB{}
				var want []Transfer
				for i := 0; i < nwant; i++ {
					want = append(want, Transfer{Message: msgs[0], Topic: topics[0]})
				}
				mock := NewPublishMock(rec, want...)
				expect := 0
				for i := 0; i < ncall; i++ {
					mi, ti := (code>>(2*i))&1, (code>>(2*i+1))&1
					before := rec.reports
					func() {
						defer func() { recover() }()
						mock(nil, msgs[mi], topics[ti])
					}()
					deviates := i >= nwant || mi != 0 || ti != 0
					if deviates {
						expect++
					}
					tried++
					if (rec.reports > before) != deviates {
						t.Logf("REPLAY: reproduced: publish mock with %d expectations, call %d (message differs=%v, topic differs=%v): reports %d -> %d, deviation=%v", nwant, i+1, mi != 0, ti != 0, before, rec.reports, deviates)
						return
					}
				}
				before := rec.reports
				for _, f := range rec.cleanups {
					f()
				}
				if (rec.reports > before) != (ncall != nwant) {
					t.Logf("REPLAY: reproduced: publish mock cleanup with %d expectations and %d calls: reported=%v", nwant, ncall, rec.reports > before)
					return
				}
			}
		}
	}
	t.Logf("REPLAY: not reproduced (%d invocations agree with the oracle)", tried)
}
