package mqtt

// Replay driver (injected with `go test -overlay` by govc; nothing is written to /repo).
// It runs the REAL function on the solver's input where the model is a complete
// input, plus a small deterministic neighbourhood search (bounds stated below),
// and evaluates a property-level oracle written independently of the contract.

import (
	"bufio"
	"bytes"
	"context"
	"encoding/json"
	"errors"
	"fmt"
	"hash/fnv"
	"net"
	"os"
	"testing"
	"time"
)

var _ = bufio.ErrBufferFull
var _ = bytes.Equal
var _ = context.Canceled
var _ = errors.New
var _ = fmt.Sprint
var _ = fnv.New32a
var _ net.Conn
var _ = time.Second

type govcReplay struct {
	Obligation string         `json:"obligation"`
	Inputs     map[string]any `json:"inputs"`
}

func govcLoad(t *testing.T) govcReplay {
	var r govcReplay
	data, err := os.ReadFile(os.Getenv("GOVC_REPLAY"))
	if err != nil {
		t.Skip("no replay file")
	}
	json.Unmarshal(data, &r)
	if r.Inputs == nil {
		r.Inputs = map[string]any{}
	}
	return r
}

func govcInt(m map[string]any, k string, def int64) int64 {
	switch v := m[k].(type) {
	case float64:
		return int64(v)
	case string:
		var n int64
		neg := false
		for i, c := range v {
			if i == 0 && c == '-' {
				neg = true
				continue
			}
			if c < '0' || c > '9' {
				return def
			}
			n = n*10 + int64(c-'0')
		}
		if neg {
			n = -n
		}
		return n
	}
	return def
}

func govcInts(m map[string]any, k string) []int64 {
	var out []int64
	if l, ok := m[k].([]any); ok {
		for _, e := range l {
			out = append(out, int64(e.(float64)))
		}
	}
	return out
}

func govcBytes(m map[string]any, k string) []byte {
	n := govcInt(m, k+".len", 0)
	if n < 0 || n > 300<<20 {
		return nil
	}
	b := make([]byte, n)
	for i, e := range govcInts(m, k) {
		if i < len(b) {
			b[i] = byte(e)
		}
	}
	return b
}

type govcTimeout struct{}

func (govcTimeout) Error() string   { return "i/o timeout" }
func (govcTimeout) Timeout() bool   { return true }
func (govcTimeout) Temporary() bool { return true }

// govcConn: scripted connection. Each write step accepts n bytes and then
// returns nil (kind 0), a timeout (kind 1) or a hard error (kind 2).
type govcConn struct {
	net.Conn
	steps  [][2]int
	wire   []byte
	closed bool
	reads  [][]byte // nil chunk: timeout
}

func (c *govcConn) Write(p []byte) (int, error) {
	if len(c.steps) == 0 {
		c.wire = append(c.wire, p...)
		return len(p), nil
	}
	s := c.steps[0]
	c.steps = c.steps[1:]
	n := s[0]
	if n > len(p) {
		n = len(p)
	}
	c.wire = append(c.wire, p[:n]...)
	switch {
	case s[1] == 1:
		return n, govcTimeout{}
	case s[1] == 2:
		return n, errors.New("hard write error")
	case n < len(p):
		return n, errors.New("short write")
	}
	return n, nil
}
func (c *govcConn) Read(p []byte) (int, error) {
	if len(c.reads) == 0 {
		return 0, errors.New("script exhausted")
	}
	ch := c.reads[0]
	c.reads = c.reads[1:]
	if ch == nil {
		return 0, govcTimeout{}
	}
	n := copy(p, ch)
	if n < len(ch) {
		c.reads = append([][]byte{ch[n:]}, c.reads...)
	}
	return n, nil
}
func (c *govcConn) Close() error                     { c.closed = true; return nil }
func (c *govcConn) SetWriteDeadline(time.Time) error { return nil }
func (c *govcConn) SetReadDeadline(time.Time) error  { return nil }
func (c *govcConn) SetDeadline(time.Time) error      { return nil }

type govcFaultyClose struct {
	*govcConn
	closeErr error
}

func (c govcFaultyClose) Close() error {
	c.govcConn.Close()
	return c.closeErr
}

// Bounded sweep of the real Disconnect: client state {online, connect pending, down, closed} x write script
// {accepts all, hard error at once, one byte then hard error, one byte then a deadline expiry without end}
// x Close of the connection {nil, error} x quit {nil, already closed}. Oracle (package documentation):
// nil only with the two bytes of DISCONNECT on the wire; an error is ErrClosed, ErrDown, ErrCanceled or
// ErrSubmit, never IsDeny; the first three only with nothing written; the client's context is cancelled.
func TestGovcReplay(t *testing.T) {
	govcLoad(t)
	tried := 0
	for _, state := range []string{"online", "pending", "down", "closed"} {
		for _, script := range []string{"ok", "fail", "partial-fail", "partial-expire"} {
			for _, closeFails := range []bool{false, true} {
				for _, quitClosed := range []bool{false, true} {
					tried++
					c, err := VolatileSession("govc", &Config{PauseTimeout: time.Millisecond, Dialer: func(context.Context) (net.Conn, error) {
						return nil, errors.New("no connection")
					}})
					if err != nil {
						t.Fatal(err)
					}
					conn := &govcConn{}
					switch script {
					case "fail":
						conn.steps = [][2]int{{0, 2}}
					case "partial-fail":
						conn.steps = [][2]int{{1, 2}}
					case "partial-expire":
						conn.steps = [][2]int{{1, 1}, {0, 1}, {0, 1}}
					}
					var nc net.Conn = conn
					if closeFails {
						nc = govcFaultyClose{conn, errors.New("close failed")}
					}
					switch state {
					case "online":
						<-c.connSem
						c.connSem <- nc
						<-c.writeSem
						c.writeSem <- nc
					case "down":
						<-c.writeSem
						c.writeSem <- connDown
					case "closed":
						c.Close()
					}
					var quit chan struct{}
					if quitClosed {
						quit = make(chan struct{})
						close(quit)
					}
					got := c.Disconnect(quit)
					desc := fmt.Sprintf("Disconnect on a client %s, write script %s, Close of the connection fails: %v, quit closed: %v", state, script, closeFails, quitClosed)
					if c.ctx.Err() == nil {
						t.Logf("REPLAY: reproduced: %s: the context that dial and handshake run under is not cancelled", desc)
						return
					}
					switch {
					case got == nil:
						if state != "online" || !bytes.Equal(conn.wire, []byte{typeDISCONNECT << 4, 0}) {
							t.Logf("REPLAY: reproduced: %s: nil with %x on the wire", desc, conn.wire)
							return
						}
					case IsDeny(got) || !(errors.Is(got, ErrClosed) || errors.Is(got, ErrDown) || errors.Is(got, ErrCanceled) || errors.Is(got, ErrSubmit)):
						t.Logf("REPLAY: reproduced: %s: error outside the documented classes: %v", desc, got)
						return
					case (errors.Is(got, ErrClosed) || errors.Is(got, ErrDown) || errors.Is(got, ErrCanceled)) && len(conn.wire) != 0:
						t.Logf("REPLAY: reproduced: %s: %v with %x written", desc, got, conn.wire)
						return
					}
				}
			}
		}
	}
	t.Logf("REPLAY: not reproduced in %d calls (4 states x 4 write scripts x 2 close results x 2 quit states)", tried)
}
