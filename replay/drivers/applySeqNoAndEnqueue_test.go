package mqtt

// Replay driver (injected with `go test -overlay` by govc; nothing is written to /repo).
// It runs the REAL function on the solver's input where the model is a complete
// input, plus a small deterministic neighbourhood search (bounds stated below),
// and evaluates a property-level oracle written independently of the contract.

import (
	"bufio"
	"bytes"
	"context"
	"encoding/json"
	"errors"
	"fmt"
	"hash/fnv"
	"net"
	"os"
	"testing"
	"time"
)

var _ = bufio.ErrBufferFull
var _ = bytes.Equal
var _ = context.Canceled
var _ = errors.New
var _ = fmt.Sprint
var _ = fnv.New32a
var _ net.Conn
var _ = time.Second

type govcReplay struct {
	Obligation string         `json:"obligation"`
	Inputs     map[string]any `json:"inputs"`
}

func govcLoad(t *testing.T) govcReplay {
	var r govcReplay
	data, err := os.ReadFile(os.Getenv("GOVC_REPLAY"))
	if err != nil {
		t.Skip("no replay file")
	}
	json.Unmarshal(data, &r)
	if r.Inputs == nil {
		r.Inputs = map[string]any{}
	}
	return r
}

func govcInt(m map[string]any, k string, def int64) int64 {
	switch v := m[k].(type) {
	case float64:
		return int64(v)
	case string:
		var n int64
		neg := false
		for i, c := range v {
			if i == 0 && c == '-' {
				neg = true
				continue
			}
			if c < '0' || c > '9' {
				return def
			}
			n = n*10 + int64(c-'0')
		}
		if neg {
			n = -n
		}
		return n
	}
	return def
}

func govcInts(m map[string]any, k string) []int64 {
	var out []int64
	if l, ok := m[k].([]any); ok {
		for _, e := range l {
			out = append(out, int64(e.(float64)))
		}
	}
	return out
}

func govcBytes(m map[string]any, k string) []byte {
	n := govcInt(m, k+".len", 0)
	if n < 0 || n > 300<<20 {
		return nil
	}
	b := make([]byte, n)
	for i, e := range govcInts(m, k) {
		if i < len(b) {
			b[i] = byte(e)
		}
	}
	return b
}

type govcTimeout struct{}

func (govcTimeout) Error() string   { return "i/o timeout" }
func (govcTimeout) Timeout() bool   { return true }
func (govcTimeout) Temporary() bool { return true }

// govcConn: scripted connection. Each write step accepts n bytes and then
// returns nil (kind 0), a timeout (kind 1) or a hard error (kind 2).
type govcConn struct {
	net.Conn
	steps  [][2]int
	wire   []byte
	closed bool
	reads  [][]byte // nil chunk: timeout
}

func (c *govcConn) Write(p []byte) (int, error) {
	if len(c.steps) == 0 {
		c.wire = append(c.wire, p...)
		return len(p), nil
	}
	s := c.steps[0]
	c.steps = c.steps[1:]
	n := s[0]
	if n > len(p) {
		n = len(p)
	}
	c.wire = append(c.wire, p[:n]...)
	switch {
	case s[1] == 1:
		return n, govcTimeout{}
	case s[1] == 2:
		return n, errors.New("hard write error")
	case n < len(p):
		return n, errors.New("short write")
	}
	return n, nil
}
func (c *govcConn) Read(p []byte) (int, error) {
	if len(c.reads) == 0 {
		return 0, errors.New("script exhausted")
	}
	ch := c.reads[0]
	c.reads = c.reads[1:]
	if ch == nil {
		return 0, govcTimeout{}
	}
	n := copy(p, ch)
	if n < len(ch) {
		c.reads = append([][]byte{ch[n:]}, c.reads...)
	}
	return n, nil
}
func (c *govcConn) Close() error                     { c.closed = true; return nil }
func (c *govcConn) SetWriteDeadline(time.Time) error { return nil }
func (c *govcConn) SetReadDeadline(time.Time) error  { return nil }
func (c *govcConn) SetDeadline(time.Time) error      { return nil }



func govcOutPublish(level byte, dup bool, id uint16, msg string) []byte {
	head := byte(typePUBLISH<<4) | level<<1
	if dup {
		head |= dupeFlag
	}
	body := []byte{0, 1, 't', byte(id >> 8), byte(id)}
	body = append(body, msg...)
	return append([]byte{head, byte(len(body))}, body...)
}

type govcAck struct {
	typ byte
	id  uint16
}

func (a govcAck) bytes() []byte {
	flags := byte(0)
	return []byte{a.typ<<4 | flags, 2, byte(a.id >> 8), byte(a.id)}
}

// The sender side of MQTT 3.1.1 §4.3 with in-order acknowledgement per level (as the package documents), and
// §4.4 for the reconnect: written from the standard, independently of the code under test.
func govcSenderReference(levels []byte, acks []govcAck) (wire1 []byte, closedAL, closedEO int, resend []byte) {
	var nAL, nEO int
	for k, l := range levels {
		msg := fmt.Sprintf("m%d", k)
		if l == 1 {
			wire1 = append(wire1, govcOutPublish(1, false, uint16(0x8000+nAL), msg)...)
			nAL++
		} else {
			wire1 = append(wire1, govcOutPublish(2, false, uint16(0xc000+nEO), msg)...)
			nEO++
		}
	}
	acked, received, completed := 0, 0, 0
process:
	for _, a := range acks {
		switch {
		case a.typ == typePUBACK && int(a.id) == 0x8000+acked && acked < nAL:
			acked++
		case a.typ == typePUBREC && int(a.id) == 0xc000+received && received < nEO:
			received++
			wire1 = append(wire1, typePUBREL<<4|2, 2, byte(a.id>>8), byte(a.id))
		case a.typ == typePUBCOMP && int(a.id) == 0xc000+completed && completed < received:
			completed++
		default:
			break process // protocol violation: the connection is reset
		}
	}
	// reconnect: unacknowledged PUBLISH (as duplicates) and PUBREL packets again, original identifiers, original order
	alK, eoK := 0, 0
	var alMsgs, eoMsgs []string
	for k, l := range levels {
		if l == 1 {
			alMsgs = append(alMsgs, fmt.Sprintf("m%d", k))
			alK++
		} else {
			eoMsgs = append(eoMsgs, fmt.Sprintf("m%d", k))
			eoK++
		}
	}
	for k := acked; k < nAL; k++ {
		resend = append(resend, govcOutPublish(1, true, uint16(0x8000+k), alMsgs[k])...)
	}
	for k := completed; k < received; k++ {
		resend = append(resend, typePUBREL<<4|2, 2, byte((0xc000+k)>>8), byte(0xc000+k))
	}
	for k := received; k < nEO; k++ {
		resend = append(resend, govcOutPublish(2, true, uint16(0xc000+k), eoMsgs[k])...)
	}
	return wire1, acked, completed, resend
}

func govcRunOutbound(levels []byte, acks []govcAck) (bad string) {
	defer func() {
		if r := recover(); r != nil {
			bad = fmt.Sprint("panic: ", r)
		}
	}()
	conn2 := &govcConn{reads: [][]byte{{typeCONNACK << 4, 2, 0, 0}}}
	dials := 0
	c, err := VolatileSession("govc", &Config{Dialer: func(context.Context) (net.Conn, error) {
		dials++
		if dials == 1 {
			return conn2, nil
		}
		return nil, errors.New("no more connections")
	}, AtLeastOnceMax: 10, ExactlyOnceMax: 10})
	if err != nil {
		return err.Error()
	}
	conn := &govcConn{}
	<-c.connSem
	c.connSem <- conn
	<-c.writeSem
	c.writeSem <- conn
	c.readConn = conn
	c.bufr = bufio.NewReaderSize(conn, readBufSize)
	var exAL, exEO []<-chan error
	for k, l := range levels {
		msg := []byte(fmt.Sprintf("m%d", k))
		var ex <-chan error
		var err error
		if l == 1 {
			ex, err = c.PublishAtLeastOnce(msg, "t")
			exAL = append(exAL, ex)
		} else {
			ex, err = c.PublishExactlyOnce(msg, "t")
			exEO = append(exEO, ex)
		}
		if err != nil {
			return fmt.Sprintf("publish %d refused: %v", k, err)
		}
	}
	for _, a := range acks {
		conn.reads = append(conn.reads, a.bytes())
	}
	if _, _, err := c.ReadSlices(); err == nil {
		return "ReadSlices returned a message from a script of acknowledgements"
	}
	wire1 := append([]byte{}, conn.wire...)
	c.ReadSlices() // redials: CONNECT, CONNACK, resend, then the script ends
	wantWire1, wantAL, wantEO, wantResend := govcSenderReference(levels, acks)
	isClosed := func(ch <-chan error) bool {
		select {
		case _, ok := <-ch:
			return !ok
		default:
			return false
		}
	}
	gotAL, gotEO := 0, 0
	for _, ch := range exAL {
		if isClosed(ch) {
			gotAL++
		}
	}
	for _, ch := range exEO {
		if isClosed(ch) {
			gotEO++
		}
	}
	var resent []byte
	if len(conn2.wire) >= 2 && conn2.wire[0]>>4 == typeCONNECT && len(conn2.wire) >= 2+int(conn2.wire[1]) {
		resent = conn2.wire[2+int(conn2.wire[1]):]
	}
	if !bytes.Equal(wire1, wantWire1) || gotAL != wantAL || gotEO != wantEO || !bytes.Equal(resent, wantResend) {
		return fmt.Sprintf("publish levels %v, then acknowledgements %v, then a reconnect: first connection %x (reference %x), %d/%d exchanges completed (reference %d/%d), resent %x (reference %x)",
			levels, acks, wire1, wantWire1, gotAL, gotEO, wantAL, wantEO, resent, wantResend)
	}
	return ""
}

// Publishes accepted while offline go out on the first connection, in order per level, and not as duplicates.
func govcRunOfflineFirst(levels []byte) (bad string) {
	defer func() {
		if r := recover(); r != nil {
			bad = fmt.Sprint("panic: ", r)
		}
	}()
	conn2 := &govcConn{reads: [][]byte{{typeCONNACK << 4, 2, 0, 0}}}
	dials := 0
	c, err := VolatileSession("govc", &Config{Dialer: func(context.Context) (net.Conn, error) {
		dials++
		if dials == 1 {
			return conn2, nil
		}
		return nil, errors.New("no more connections")
	}, AtLeastOnceMax: 10, ExactlyOnceMax: 10})
	if err != nil {
		return err.Error()
	}
	var want []byte
	var wantEO []byte
	nAL, nEO := 0, 0
	for k, l := range levels {
		msg := fmt.Sprintf("m%d", k)
		var err error
		if l == 1 {
			_, err = c.PublishAtLeastOnce([]byte(msg), "t")
			want = append(want, govcOutPublish(1, false, uint16(0x8000+nAL), msg)...)
			nAL++
		} else {
			_, err = c.PublishExactlyOnce([]byte(msg), "t")
			wantEO = append(wantEO, govcOutPublish(2, false, uint16(0xc000+nEO), msg)...)
			nEO++
		}
		if err != nil {
			return fmt.Sprintf("publish %d while offline refused: %v", k, err)
		}
	}
	want = append(want, wantEO...)
	c.ReadSlices() // dials: CONNECT, CONNACK, first transmission of the backlog, then the script ends
	var sent []byte
	if len(conn2.wire) >= 2 && conn2.wire[0]>>4 == typeCONNECT && len(conn2.wire) >= 2+int(conn2.wire[1]) {
		sent = conn2.wire[2+int(conn2.wire[1]):]
	}
	if !bytes.Equal(sent, want) {
		return fmt.Sprintf("publish levels %v while offline, then the first connection: sent %x, reference %x", levels, sent, want)
	}
	return ""
}

// Bounded search on the real client: up to 3 publishes of either level, up to 4 acknowledgement packets over
// {PUBACK, PUBREC, PUBCOMP} x {first, second identifier of the level's space, a foreign one}, then a reconnect
// (C01, C03, C05, C17 at the level of what is on the wire, which exchanges complete, and what is resent).
func TestGovcReplay(t *testing.T) {
	govcLoad(t)
	ackAlpha := []govcAck{
		{typePUBACK, 0x8000}, {typePUBACK, 0x8001}, {typePUBREC, 0xc000}, {typePUBREC, 0xc001},
		{typePUBCOMP, 0xc000}, {typePUBCOMP, 0xc001}, {typePUBACK, 0xc000},
	}
	tried := 0
	var recAcks func(levels []byte, acks []govcAck) bool
	recAcks = func(levels []byte, acks []govcAck) bool {
		tried++
		if bad := govcRunOutbound(levels, acks); bad != "" {
			t.Logf("REPLAY: reproduced: %s", bad)
			return true
		}
		if len(acks) == 4 {
			return false
		}
		for _, a := range ackAlpha {
			if recAcks(levels, append(append([]govcAck{}, acks...), a)) {
				return true
			}
		}
		return false
	}
	for _, levels := range [][]byte{{1}, {2}, {1, 1}, {2, 2}, {1, 2}, {2, 1, 2}, {1, 2, 1}} {
		tried++
		if bad := govcRunOfflineFirst(levels); bad != "" {
			t.Logf("REPLAY: reproduced: %s", bad)
			return
		}
		if recAcks(levels, nil) {
			return
		}
	}
	t.Logf("REPLAY: not reproduced in %d scenarios (bounded search)", tried)
}
