package mqtt

// Replay driver (injected with `go test -overlay` by govc; nothing is written to /repo).
// It runs the REAL function on the solver's input where the model is a complete
// input, plus a small deterministic neighbourhood search (bounds stated below),
// and evaluates a property-level oracle written independently of the contract.

import (
	"bufio"
	"bytes"
	"context"
	"encoding/json"
	"errors"
	"fmt"
	"hash/fnv"
	"net"
	"os"
	"testing"
	"time"
)

var _ = bufio.ErrBufferFull
var _ = bytes.Equal
var _ = context.Canceled
var _ = errors.New
var _ = fmt.Sprint
var _ = fnv.New32a
var _ net.Conn
var _ = time.Second

type govcReplay struct {
	Obligation string         `json:"obligation"`
	Inputs     map[string]any `json:"inputs"`
}

func govcLoad(t *testing.T) govcReplay {
	var r govcReplay
	data, err := os.ReadFile(os.Getenv("GOVC_REPLAY"))
	if err != nil {
		t.Skip("no replay file")
	}
	json.Unmarshal(data, &r)
	if r.Inputs == nil {
		r.Inputs = map[string]any{}
	}
	return r
}

func govcInt(m map[string]any, k string, def int64) int64 {
	switch v := m[k].(type) {
	case float64:
		return int64(v)
	case string:
		var n int64
		neg := false
		for i, c := range v {
			if i == 0 && c == '-' {
				neg = true
				continue
			}
			if c < '0' || c > '9' {
				return def
			}
			n = n*10 + int64(c-'0')
		}
		if neg {
			n = -n
		}
		return n
	}
	return def
}

func govcInts(m map[string]any, k string) []int64 {
	var out []int64
	if l, ok := m[k].([]any); ok {
		for _, e := range l {
			out = append(out, int64(e.(float64)))
		}
	}
	return out
}

func govcBytes(m map[string]any, k string) []byte {
	n := govcInt(m, k+".len", 0)
	if n < 0 || n > 300<<20 {
		return nil
	}
	b := make([]byte, n)
	for i, e := range govcInts(m, k) {
		if i < len(b) {
			b[i] = byte(e)
		}
	}
	return b
}

type govcTimeout struct{}

func (govcTimeout) Error() string   { return "i/o timeout" }
func (govcTimeout) Timeout() bool   { return true }
func (govcTimeout) Temporary() bool { return true }

// govcConn: scripted connection. Each write step accepts n bytes and then
// returns nil (kind 0), a timeout (kind 1) or a hard error (kind 2).
type govcConn struct {
	net.Conn
	steps  [][2]int
	wire   []byte
	closed bool
	reads  [][]byte // nil chunk: timeout
}

func (c *govcConn) Write(p []byte) (int, error) {
	if len(c.steps) == 0 {
		c.wire = append(c.wire, p...)
		return len(p), nil
	}
	s := c.steps[0]
	c.steps = c.steps[1:]
	n := s[0]
	if n > len(p) {
		n = len(p)
	}
	c.wire = append(c.wire, p[:n]...)
	switch {
	case s[1] == 1:
		return n, govcTimeout{}
	case s[1] == 2:
		return n, errors.New("hard write error")
	case n < len(p):
		return n, errors.New("short write")
	}
	return n, nil
}
func (c *govcConn) Read(p []byte) (int, error) {
	if len(c.reads) == 0 {
		return 0, errors.New("script exhausted")
	}
	ch := c.reads[0]
	c.reads = c.reads[1:]
	if ch == nil {
		return 0, govcTimeout{}
	}
	n := copy(p, ch)
	if n < len(ch) {
		c.reads = append([][]byte{ch[n:]}, c.reads...)
	}
	return n, nil
}
func (c *govcConn) Close() error                     { c.closed = true; return nil }
func (c *govcConn) SetWriteDeadline(time.Time) error { return nil }
func (c *govcConn) SetReadDeadline(time.Time) error  { return nil }
func (c *govcConn) SetDeadline(time.Time) error      { return nil }



// Reference encoder written from MQTT 3.1.1 §3.8 / §3.10, independent of the code under test.
func govcRefUnsub(id uint16, filters []string, level byte) []byte {
	var payload []byte
	payload = append(payload, byte(id>>8), byte(id))
	for _, f := range filters {
		payload = append(payload, byte(len(f)>>8), byte(len(f)))
		payload = append(payload, f...)
		_ = level
	}
	p := []byte{0xa2}
	for n := len(payload); ; {
		b := byte(n & 0x7f)
		n >>= 7
		if n > 0 {
			p = append(p, b|0x80)
		} else {
			p = append(p, b)
			break
		}
	}
	return append(p, payload...)
}

func govcTopicOK(s string) bool {
	if s == "" || len(s) > 65535 {
		return false
	}
	for _, r := range s {
		if r == 0 || r == 0xfffd && !bytes.Contains([]byte(s), []byte("\xef\xbf\xbd")) {
			return false
		}
	}
	return true
}

// One request on a client whose write token holds a scripted connection. Oracle (C09, C11, C17): a denial
// exactly for an empty list or an illegal filter, then nothing on the wire and no slot taken; otherwise the
// bytes on the wire are the reference encoding for the identifier of the slot, and the slot is released again
// once the request is broken off.
func govcTryUnsub(t *testing.T, filters []string, level byte) (bad string) {
	c, err := VolatileSession("govc", &Config{Dialer: func(context.Context) (net.Conn, error) { return nil, errors.New("no dial") }})
	if err != nil {
		return "no session: " + err.Error()
	}
	conn := &govcConn{}
	<-c.writeSem
	c.writeSem <- conn
	errc := make(chan error, 1)
	go func() { errc <- c.Unsubscribe(nil, filters...) }()
	var got error
	waited := false
	select {
	case got = <-errc:
	case <-time.After(50 * time.Millisecond):
		waited = true
	}
	wantDeny := len(filters) == 0
	for _, f := range filters {
		if !govcTopicOK(f) {
			wantDeny = true
		}
	}
	if wantDeny {
		if waited || !IsDeny(got) {
			return fmt.Sprintf("%q: want a denial, got %v (waiting: %v)", filters, got, waited)
		}
		c.unorderedTxs.Lock()
		n := len(c.unorderedTxs.perPacketID)
		c.unorderedTxs.Unlock()
		if len(conn.wire) != 0 || n != 0 {
			return fmt.Sprintf("%q: denied with %d bytes on the wire and %d slots taken", filters, len(conn.wire), n)
		}
		return ""
	}
	if !waited {
		return fmt.Sprintf("%q: returned %v before any response", filters, got)
	}
	c.unorderedTxs.Lock()
	var id uint16
	n := len(c.unorderedTxs.perPacketID)
	for k := range c.unorderedTxs.perPacketID {
		id = k
	}
	c.unorderedTxs.Unlock()
	if n != 1 {
		return fmt.Sprintf("%q: %d slots taken while the request waits", filters, n)
	}
	want := govcRefUnsub(id, filters, level)
	<-c.writeSem // the request gave the token back; hold it while reading the log
	wire := append([]byte{}, conn.wire...)
	c.writeSem <- conn
	if !bytes.Equal(wire, want) {
		return fmt.Sprintf("%q: wire %x, reference encoding %x", filters, wire, want)
	}
	c.unorderedTxs.breakAll()
	select {
	case <-errc:
	case <-time.After(time.Second):
		return fmt.Sprintf("%q: the request does not return after its slot was broken", filters)
	}
	return ""
}

// Bounded search on the real code: lists of up to 3 filters over {"a", "a/b", "", "x\x00", 65535 and 65536 bytes}.
func TestGovcReplay(t *testing.T) {
	govcLoad(t)
	alpha := []string{"a", "a/b", "", "x\x00", string(bytes.Repeat([]byte{'k'}, 65535)), string(bytes.Repeat([]byte{'k'}, 65536))}
	tried := 0
	var rec func(cur []string) bool
	rec = func(cur []string) bool {
		for _, level := range []byte{0, 1, 2} {
			tried++
			if bad := govcTryUnsub(t, cur, level); bad != "" {
				t.Logf("REPLAY: reproduced: Unsubscribe %s", bad)
				return true
			}
		}
		if len(cur) == 3 {
			return false
		}
		for _, a := range alpha {
			if rec(append(append([]string{}, cur...), a)) {
				return true
			}
		}
		return false
	}
	if !rec(nil) {
		t.Logf("REPLAY: not reproduced in %d requests (bounded search)", tried)
	}
}
