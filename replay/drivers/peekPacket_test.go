package mqtt

// Replay driver (injected with `go test -overlay` by govc; nothing is written to /repo).
// It runs the REAL function on the solver's input where the model is a complete
// input, plus a small deterministic neighbourhood search (bounds stated below),
// and evaluates a property-level oracle written independently of the contract.

import (
	"bufio"
	"bytes"
	"context"
	"encoding/json"
	"errors"
	"fmt"
	"hash/fnv"
	"net"
	"os"
	"testing"
	"time"
)

var _ = bufio.ErrBufferFull
var _ = bytes.Equal
var _ = context.Canceled
var _ = errors.New
var _ = fmt.Sprint
var _ = fnv.New32a
var _ net.Conn
var _ = time.Second

type govcReplay struct {
	Obligation string         `json:"obligation"`
	Inputs     map[string]any `json:"inputs"`
}

func govcLoad(t *testing.T) govcReplay {
	var r govcReplay
	data, err := os.ReadFile(os.Getenv("GOVC_REPLAY"))
	if err != nil {
		t.Skip("no replay file")
	}
	json.Unmarshal(data, &r)
	if r.Inputs == nil {
		r.Inputs = map[string]any{}
	}
	return r
}

func govcInt(m map[string]any, k string, def int64) int64 {
	switch v := m[k].(type) {
	case float64:
		return int64(v)
	case string:
		var n int64
		neg := false
		for i, c := range v {
			if i == 0 && c == '-' {
				neg = true
				continue
			}
			if c < '0' || c > '9' {
				return def
			}
			n = n*10 + int64(c-'0')
		}
		if neg {
			n = -n
		}
		return n
	}
	return def
}

func govcInts(m map[string]any, k string) []int64 {
	var out []int64
	if l, ok := m[k].([]any); ok {
		for _, e := range l {
			out = append(out, int64(e.(float64)))
		}
	}
	return out
}

func govcBytes(m map[string]any, k string) []byte {
	n := govcInt(m, k+".len", 0)
	if n < 0 || n > 300<<20 {
		return nil
	}
	b := make([]byte, n)
	for i, e := range govcInts(m, k) {
		if i < len(b) {
			b[i] = byte(e)
		}
	}
	return b
}

type govcTimeout struct{}

func (govcTimeout) Error() string   { return "i/o timeout" }
func (govcTimeout) Timeout() bool   { return true }
func (govcTimeout) Temporary() bool { return true }

// govcConn: scripted connection. Each write step accepts n bytes and then
// returns nil (kind 0), a timeout (kind 1) or a hard error (kind 2).
type govcConn struct {
	net.Conn
	steps  [][2]int
	wire   []byte
	closed bool
	reads  [][]byte // nil chunk: timeout
}

func (c *govcConn) Write(p []byte) (int, error) {
	if len(c.steps) == 0 {
		c.wire = append(c.wire, p...)
		return len(p), nil
	}
	s := c.steps[0]
	c.steps = c.steps[1:]
	n := s[0]
	if n > len(p) {
		n = len(p)
	}
	c.wire = append(c.wire, p[:n]...)
	switch {
	case s[1] == 1:
		return n, govcTimeout{}
	case s[1] == 2:
		return n, errors.New("hard write error")
	case n < len(p):
		return n, errors.New("short write")
	}
	return n, nil
}
func (c *govcConn) Read(p []byte) (int, error) {
	if len(c.reads) == 0 {
		return 0, errors.New("script exhausted")
	}
	ch := c.reads[0]
	c.reads = c.reads[1:]
	if ch == nil {
		return 0, govcTimeout{}
	}
	n := copy(p, ch)
	if n < len(ch) {
		c.reads = append([][]byte{ch[n:]}, c.reads...)
	}
	return n, nil
}
func (c *govcConn) Close() error                     { c.closed = true; return nil }
func (c *govcConn) SetWriteDeadline(time.Time) error { return nil }
func (c *govcConn) SetReadDeadline(time.Time) error  { return nil }
func (c *govcConn) SetDeadline(time.Time) error      { return nil }


// Bounded search over inbound streams: every remaining-length encoding of 1..5 bytes from a small
// alphabet, with the stream cut before/inside the body and an optional deadline expiry in between,
// through a 16-byte read buffer; oracle: reference MQTT 3.1.1 remaining-length decoder.
func TestGovcReplay(t *testing.T) {
	govcLoad(t)
	alpha := []byte{0x00, 0x01, 0x7f, 0x80, 0x81, 0xff}
	tried := 0
	var rec func(lenBytes []byte) bool
	run := func(head byte, lenBytes []byte, stall int) bool {
		// reference decode
		size, n, ok := 0, 0, false
		for i, b := range lenBytes {
			if i == 4 {
				break
			}
			size |= int(b&0x7f) << (7 * i)
			n = i + 1
			if b&0x80 == 0 {
				ok = true
				break
			}
		}
		if ok && n != len(lenBytes) {
			return false // trailing bytes belong to the body; covered by other enumerations
		}
		body := make([]byte, 40)
		for i := range body {
			body[i] = byte(i + 1)
		}
		stream := append(append([]byte{head}, lenBytes...), body...)
		conn := &govcConn{}
		cut := 1 + len(lenBytes) + stall
		if stall >= 0 && cut < len(stream) {
			conn.reads = [][]byte{stream[:cut], nil, stream[cut:]}
		} else {
			conn.reads = [][]byte{stream}
		}
		c, err := VolatileSession("x", &Config{Dialer: func(context.Context) (net.Conn, error) { return nil, errors.New("no dial") }, PauseTimeout: time.Second})
		if err != nil {
			t.Fatal(err)
		}
		c.readConn = conn
		c.bufr = bufio.NewReaderSize(conn, 16)
		tried++
		h, perr := c.peekPacket()
		var big *BigMessage
		switch {
		case perr == nil:
			if !ok || h != head || len(c.peek) != size || !bytes.Equal(c.peek, body[:size]) {
				t.Logf("REPLAY: reproduced: stream %x (stall after %d body bytes): peekPacket returned head %#x and %d bytes %x; reference: valid=%v size=%d", stream[:1+len(lenBytes)], stall, h, len(c.peek), c.peek, ok, size)
				return true
			}
		case errors.As(perr, &big):
			if !ok || big.Size != size || size <= 16 || len(c.peek) != 16 || !bytes.Equal(c.peek, body[:16]) {
				t.Logf("REPLAY: reproduced: stream %x (stall after %d body bytes): BigMessage Size %d with %d buffered bytes; reference: valid=%v size=%d buffer 16", stream[:1+len(lenBytes)], stall, big.Size, len(c.peek), ok, size)
				return true
			}
		default:
			if ok && size <= len(body) && stall < 0 {
				t.Logf("REPLAY: reproduced: valid packet %x refused: %v", stream[:1+len(lenBytes)], perr)
				return true
			}
		}
		return false
	}
	rec = func(lenBytes []byte) bool {
		if len(lenBytes) > 0 && (lenBytes[len(lenBytes)-1]&0x80 == 0 || len(lenBytes) == 5) {
			for _, head := range []byte{0x30, 0x40} {
				for _, stall := range []int{-1, 0, 5} {
					if run(head, lenBytes, stall) {
						return true
					}
				}
			}
		}
		if len(lenBytes) == 5 {
			return false
		}
		for _, a := range alpha {
			if len(lenBytes) > 0 && lenBytes[len(lenBytes)-1]&0x80 == 0 {
				continue
			}
			if rec(append(append([]byte{}, lenBytes...), a)) {
				return true
			}
		}
		return false
	}
	if rec(nil) {
		return
	}
	t.Logf("REPLAY: not reproduced (%d streams agree with the reference decoder)", tried)
}
