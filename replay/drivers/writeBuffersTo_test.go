package mqtt

// Replay driver (injected with `go test -overlay` by govc; nothing is written to /repo).
// It runs the REAL function on the solver's input where the model is a complete
// input, plus a small deterministic neighbourhood search (bounds stated below),
// and evaluates a property-level oracle written independently of the contract.

import (
	"bufio"
	"bytes"
	"context"
	"encoding/json"
	"errors"
	"fmt"
	"hash/fnv"
	"net"
	"os"
	"testing"
	"time"
)

var _ = bufio.ErrBufferFull
var _ = bytes.Equal
var _ = context.Canceled
var _ = errors.New
var _ = fmt.Sprint
var _ = fnv.New32a
var _ net.Conn
var _ = time.Second

type govcReplay struct {
	Obligation string         `json:"obligation"`
	Inputs     map[string]any `json:"inputs"`
}

func govcLoad(t *testing.T) govcReplay {
	var r govcReplay
	data, err := os.ReadFile(os.Getenv("GOVC_REPLAY"))
	if err != nil {
		t.Skip("no replay file")
	}
	json.Unmarshal(data, &r)
	if r.Inputs == nil {
		r.Inputs = map[string]any{}
	}
	return r
}

func govcInt(m map[string]any, k string, def int64) int64 {
	switch v := m[k].(type) {
	case float64:
		return int64(v)
	case string:
		var n int64
		neg := false
		for i, c := range v {
			if i == 0 && c == '-' {
				neg = true
				continue
			}
			if c < '0' || c > '9' {
				return def
			}
			n = n*10 + int64(c-'0')
		}
		if neg {
			n = -n
		}
		return n
	}
	return def
}

func govcInts(m map[string]any, k string) []int64 {
	var out []int64
	if l, ok := m[k].([]any); ok {
		for _, e := range l {
			out = append(out, int64(e.(float64)))
		}
	}
	return out
}

func govcBytes(m map[string]any, k string) []byte {
	n := govcInt(m, k+".len", 0)
	if n < 0 || n > 300<<20 {
		return nil
	}
	b := make([]byte, n)
	for i, e := range govcInts(m, k) {
		if i < len(b) {
			b[i] = byte(e)
		}
	}
	return b
}

type govcTimeout struct{}

func (govcTimeout) Error() string   { return "i/o timeout" }
func (govcTimeout) Timeout() bool   { return true }
func (govcTimeout) Temporary() bool { return true }

// govcConn: scripted connection. Each write step accepts n bytes and then
// returns nil (kind 0), a timeout (kind 1) or a hard error (kind 2).
type govcConn struct {
	net.Conn
	steps  [][2]int
	wire   []byte
	closed bool
	reads  [][]byte // nil chunk: timeout
}

func (c *govcConn) Write(p []byte) (int, error) {
	if len(c.steps) == 0 {
		c.wire = append(c.wire, p...)
		return len(p), nil
	}
	s := c.steps[0]
	c.steps = c.steps[1:]
	n := s[0]
	if n > len(p) {
		n = len(p)
	}
	c.wire = append(c.wire, p[:n]...)
	switch {
	case s[1] == 1:
		return n, govcTimeout{}
	case s[1] == 2:
		return n, errors.New("hard write error")
	case n < len(p):
		return n, errors.New("short write")
	}
	return n, nil
}
func (c *govcConn) Read(p []byte) (int, error) {
	if len(c.reads) == 0 {
		return 0, errors.New("script exhausted")
	}
	ch := c.reads[0]
	c.reads = c.reads[1:]
	if ch == nil {
		return 0, govcTimeout{}
	}
	n := copy(p, ch)
	if n < len(ch) {
		c.reads = append([][]byte{ch[n:]}, c.reads...)
	}
	return n, nil
}
func (c *govcConn) Close() error                     { c.closed = true; return nil }
func (c *govcConn) SetWriteDeadline(time.Time) error { return nil }
func (c *govcConn) SetReadDeadline(time.Time) error  { return nil }
func (c *govcConn) SetDeadline(time.Time) error      { return nil }


// Bounded search: two buffers of 0..3 bytes each, up to 3 scripted write steps.
func TestGovcReplay(t *testing.T) {
	govcLoad(t)
	tried := 0
	for l1 := 0; l1 <= 3; l1++ {
		for l2 := 0; l2 <= 3; l2++ {
			flat := append([]byte("abc")[:l1:l1], []byte("xyz")[:l2]...)
			var rec func(steps [][2]int, depth int) bool
			rec = func(steps [][2]int, depth int) bool {
				tried++
				conn := &govcConn{steps: append([][2]int{}, steps...)}
				bufs := net.Buffers{append([]byte{}, []byte("abc")[:l1]...), append([]byte{}, []byte("xyz")[:l2]...)}
				err := writeBuffersTo(conn, bufs, time.Second)
				if !bytes.HasPrefix(flat, conn.wire) {
					t.Logf("REPLAY: reproduced: writeBuffersTo(%q,%q) with write script %v put %q on the wire (err=%v)", flat[:l1], flat[l1:], steps, conn.wire, err)
					return true
				}
				if err == nil && !bytes.Equal(flat, conn.wire) {
					t.Logf("REPLAY: reproduced: writeBuffersTo(%q,%q) with write script %v reported success with %q on the wire", flat[:l1], flat[l1:], steps, conn.wire)
					return true
				}
				if depth == 3 {
					return false
				}
				for n := 0; n <= l1+l2; n++ {
					for kind := 0; kind <= 2; kind++ {
						if rec(append(steps, [2]int{n, kind}), depth+1) {
							return true
						}
					}
				}
				return false
			}
			if rec(nil, 0) {
				return
			}
		}
	}
	t.Logf("REPLAY: not reproduced (%d scripted runs agree with the oracle)", tried)
}
