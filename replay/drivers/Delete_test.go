package mqtt

// Replay driver (injected with `go test -overlay` by govc; nothing is written to /repo).
// It runs the REAL function on the solver's input where the model is a complete
// input, plus a small deterministic neighbourhood search (bounds stated below),
// and evaluates a property-level oracle written independently of the contract.

import (
	"bufio"
	"bytes"
	"context"
	"encoding/json"
	"errors"
	"fmt"
	"hash/fnv"
	"net"
	"os"
	"testing"
	"time"
)

var _ = bufio.ErrBufferFull
var _ = bytes.Equal
var _ = context.Canceled
var _ = errors.New
var _ = fmt.Sprint
var _ = fnv.New32a
var _ net.Conn
var _ = time.Second

type govcReplay struct {
	Obligation string         `json:"obligation"`
	Inputs     map[string]any `json:"inputs"`
}

func govcLoad(t *testing.T) govcReplay {
	var r govcReplay
	data, err := os.ReadFile(os.Getenv("GOVC_REPLAY"))
	if err != nil {
		t.Skip("no replay file")
	}
	json.Unmarshal(data, &r)
	if r.Inputs == nil {
		r.Inputs = map[string]any{}
	}
	return r
}

func govcInt(m map[string]any, k string, def int64) int64 {
	switch v := m[k].(type) {
	case float64:
		return int64(v)
	case string:
		var n int64
		neg := false
		for i, c := range v {
			if i == 0 && c == '-' {
				neg = true
				continue
			}
			if c < '0' || c > '9' {
				return def
			}
			n = n*10 + int64(c-'0')
		}
		if neg {
			n = -n
		}
		return n
	}
	return def
}

func govcInts(m map[string]any, k string) []int64 {
	var out []int64
	if l, ok := m[k].([]any); ok {
		for _, e := range l {
			out = append(out, int64(e.(float64)))
		}
	}
	return out
}

func govcBytes(m map[string]any, k string) []byte {
	n := govcInt(m, k+".len", 0)
	if n < 0 || n > 300<<20 {
		return nil
	}
	b := make([]byte, n)
	for i, e := range govcInts(m, k) {
		if i < len(b) {
			b[i] = byte(e)
		}
	}
	return b
}

type govcTimeout struct{}

func (govcTimeout) Error() string   { return "i/o timeout" }
func (govcTimeout) Timeout() bool   { return true }
func (govcTimeout) Temporary() bool { return true }

// govcConn: scripted connection. Each write step accepts n bytes and then
// returns nil (kind 0), a timeout (kind 1) or a hard error (kind 2).
type govcConn struct {
	net.Conn
	steps  [][2]int
	wire   []byte
	closed bool
	reads  [][]byte // nil chunk: timeout
}

func (c *govcConn) Write(p []byte) (int, error) {
	if len(c.steps) == 0 {
		c.wire = append(c.wire, p...)
		return len(p), nil
	}
	s := c.steps[0]
	c.steps = c.steps[1:]
	n := s[0]
	if n > len(p) {
		n = len(p)
	}
	c.wire = append(c.wire, p[:n]...)
	switch {
	case s[1] == 1:
		return n, govcTimeout{}
	case s[1] == 2:
		return n, errors.New("hard write error")
	case n < len(p):
		return n, errors.New("short write")
	}
	return n, nil
}
func (c *govcConn) Read(p []byte) (int, error) {
	if len(c.reads) == 0 {
		return 0, errors.New("script exhausted")
	}
	ch := c.reads[0]
	c.reads = c.reads[1:]
	if ch == nil {
		return 0, govcTimeout{}
	}
	n := copy(p, ch)
	if n < len(ch) {
		c.reads = append([][]byte{ch[n:]}, c.reads...)
	}
	return n, nil
}
func (c *govcConn) Close() error                     { c.closed = true; return nil }
func (c *govcConn) SetWriteDeadline(time.Time) error { return nil }
func (c *govcConn) SetReadDeadline(time.Time) error  { return nil }
func (c *govcConn) SetDeadline(time.Time) error      { return nil }



// The in-memory store against a reference map, on the real code: every sequence of up to 5 operations
// (Save with one of two values, Delete, and after each step List and Load of every key) over three keys -
// the key of the solver's model, its predecessor and its successor (bound: 5 operations, 3 keys, 2 values).
func TestGovcReplay(t *testing.T) {
	r := govcLoad(t)
	key := uint(govcInt(r.Inputs, "key", 1))
	keys := []uint{key - 1, key, key + 1}
	vals := [][]byte{{1, 2, 3}, {}}
	type op struct {
		kind int // 0, 1: Save of vals[kind]; 2: Delete
		key  uint
	}
	var ops []op
	for _, k := range keys {
		ops = append(ops, op{0, k}, op{1, k}, op{2, k})
	}
	tried := 0
	run := func(seq []op) bool {
		tried++
		p := newVolatile()
		ref := map[uint][]byte{}
		for step, o := range seq {
			var err error
			if o.kind == 2 {
				err = p.Delete(o.key)
				delete(ref, o.key)
			} else {
				v := vals[o.kind]
				err = p.Save(o.key, net.Buffers{v[:len(v)/2], v[len(v)/2:]})
				ref[o.key] = append([]byte{}, v...)
			}
			if err != nil {
				t.Logf("REPLAY: reproduced: step %d of %v: error %v from the in-memory store", step, seq, err)
				return true
			}
			listed, err := p.List()
			seen := map[uint]bool{}
			for _, k := range listed {
				if _, ok := ref[k]; !ok || seen[k] {
					t.Logf("REPLAY: reproduced: after %v List gives %v, reference has %d keys (key %d not stored or twice)", seq[:step+1], listed, len(ref), k)
					return true
				}
				seen[k] = true
			}
			if err != nil || len(seen) != len(ref) {
				t.Logf("REPLAY: reproduced: after %v List gives %v (error %v), reference has %d keys", seq[:step+1], listed, err, len(ref))
				return true
			}
			for _, k := range keys {
				got, err := p.Load(k)
				want, ok := ref[k]
				if err != nil || (got == nil) == ok || !bytes.Equal(got, want) {
					t.Logf("REPLAY: reproduced: after %v Load(%d) = %v, %v; reference %v (present %v)", seq[:step+1], k, got, err, want, ok)
					return true
				}
			}
		}
		return false
	}
	var rec func(seq []op) bool
	rec = func(seq []op) bool {
		if len(seq) > 0 && len(seq) == 5 {
			return run(seq)
		}
		for _, o := range ops {
			if rec(append(append([]op{}, seq...), o)) {
				return true
			}
		}
		return false
	}
	if rec(nil) {
		return
	}
	t.Logf("REPLAY: not reproduced (%d operation sequences agree with the reference map)", tried)
}
