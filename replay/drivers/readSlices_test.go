package mqtt

// Replay driver (injected with `go test -overlay` by govc; nothing is written to /repo).
// It runs the REAL function on the solver's input where the model is a complete
// input, plus a small deterministic neighbourhood search (bounds stated below),
// and evaluates a property-level oracle written independently of the contract.

import (
	"bufio"
	"bytes"
	"context"
	"encoding/json"
	"errors"
	"fmt"
	"hash/fnv"
	"net"
	"os"
	"testing"
	"time"
)

var _ = bufio.ErrBufferFull
var _ = bytes.Equal
var _ = context.Canceled
var _ = errors.New
var _ = fmt.Sprint
var _ = fnv.New32a
var _ net.Conn
var _ = time.Second

type govcReplay struct {
	Obligation string         `json:"obligation"`
	Inputs     map[string]any `json:"inputs"`
}

func govcLoad(t *testing.T) govcReplay {
	var r govcReplay
	data, err := os.ReadFile(os.Getenv("GOVC_REPLAY"))
	if err != nil {
		t.Skip("no replay file")
	}
	json.Unmarshal(data, &r)
	if r.Inputs == nil {
		r.Inputs = map[string]any{}
	}
	return r
}

func govcInt(m map[string]any, k string, def int64) int64 {
	switch v := m[k].(type) {
	case float64:
		return int64(v)
	case string:
		var n int64
		neg := false
		for i, c := range v {
			if i == 0 && c == '-' {
				neg = true
				continue
			}
			if c < '0' || c > '9' {
				return def
			}
			n = n*10 + int64(c-'0')
		}
		if neg {
			n = -n
		}
		return n
	}
	return def
}

func govcInts(m map[string]any, k string) []int64 {
	var out []int64
	if l, ok := m[k].([]any); ok {
		for _, e := range l {
			out = append(out, int64(e.(float64)))
		}
	}
	return out
}

func govcBytes(m map[string]any, k string) []byte {
	n := govcInt(m, k+".len", 0)
	if n < 0 || n > 300<<20 {
		return nil
	}
	b := make([]byte, n)
	for i, e := range govcInts(m, k) {
		if i < len(b) {
			b[i] = byte(e)
		}
	}
	return b
}

type govcTimeout struct{}

func (govcTimeout) Error() string   { return "i/o timeout" }
func (govcTimeout) Timeout() bool   { return true }
func (govcTimeout) Temporary() bool { return true }

// govcConn: scripted connection. Each write step accepts n bytes and then
// returns nil (kind 0), a timeout (kind 1) or a hard error (kind 2).
type govcConn struct {
	net.Conn
	steps  [][2]int
	wire   []byte
	closed bool
	reads  [][]byte // nil chunk: timeout
}

func (c *govcConn) Write(p []byte) (int, error) {
	if len(c.steps) == 0 {
		c.wire = append(c.wire, p...)
		return len(p), nil
	}
	s := c.steps[0]
	c.steps = c.steps[1:]
	n := s[0]
	if n > len(p) {
		n = len(p)
	}
	c.wire = append(c.wire, p[:n]...)
	switch {
	case s[1] == 1:
		return n, govcTimeout{}
	case s[1] == 2:
		return n, errors.New("hard write error")
	case n < len(p):
		return n, errors.New("short write")
	}
	return n, nil
}
func (c *govcConn) Read(p []byte) (int, error) {
	if len(c.reads) == 0 {
		return 0, errors.New("script exhausted")
	}
	ch := c.reads[0]
	c.reads = c.reads[1:]
	if ch == nil {
		return 0, govcTimeout{}
	}
	n := copy(p, ch)
	if n < len(ch) {
		c.reads = append([][]byte{ch[n:]}, c.reads...)
	}
	return n, nil
}
func (c *govcConn) Close() error                     { c.closed = true; return nil }
func (c *govcConn) SetWriteDeadline(time.Time) error { return nil }
func (c *govcConn) SetReadDeadline(time.Time) error  { return nil }
func (c *govcConn) SetDeadline(time.Time) error      { return nil }



// A scripted broker side: the packets of the script arrive in chunks of the given size; then the connection
// fails. The client under test is a real one with this connection attached as if connect had succeeded.
type govcInPacket struct {
	bytes []byte
	kind  string
}

func govcPublish(qos byte, dup bool, id uint16, topic, msg string) govcInPacket {
	head := byte(typePUBLISH<<4) | qos<<1
	if dup {
		head |= dupeFlag
	}
	body := []byte{byte(len(topic) >> 8), byte(len(topic))}
	body = append(body, topic...)
	if qos != 0 {
		body = append(body, byte(id>>8), byte(id))
	}
	body = append(body, msg...)
	return govcInPacket{append([]byte{head, byte(len(body))}, body...), fmt.Sprintf("PUBLISH(q%d dup=%v id=%d %q)", qos, dup, id, msg)}
}

func govcPubrel(id uint16) govcInPacket {
	return govcInPacket{[]byte{typePUBREL<<4 | 2, 2, byte(id >> 8), byte(id)}, fmt.Sprintf("PUBREL(%d)", id)}
}

// The receiver side of MQTT 3.1.1 §4.3 (method B for QoS 2), written from the standard and the documented
// behaviour of ReadSlices (an acknowledgement goes out with the call after the delivery), independently of the code.
func govcReference(script []govcInPacket) (delivered []string, wire []byte) {
	marker := map[uint16]bool{}
	var pending []byte
	for i := 0; ; {
		// one ReadSlices call
		if pending != nil {
			if pending[0]>>4 == typePUBREC {
				marker[uint16(pending[2])<<8|uint16(pending[3])] = true
			}
			wire = append(wire, pending...)
			pending = nil
		}
		got := false
		for !got {
			if i == len(script) {
				return // the connection fails: the call returns an error
			}
			p := script[i].bytes
			i++
			switch p[0] >> 4 {
			case typePUBLISH:
				qos := p[0] >> 1 & 3
				tl := int(p[2])<<8 | int(p[3])
				rest := p[4+tl:]
				if qos == 0 {
					delivered = append(delivered, string(rest))
					got = true
					break
				}
				id := uint16(rest[0])<<8 | uint16(rest[1])
				if qos == 2 && marker[id] {
					wire = append(wire, typePUBREC<<4, 2, rest[0], rest[1]) // answered again, not delivered again
					break
				}
				delivered = append(delivered, string(rest[2:]))
				if qos == 1 {
					pending = []byte{typePUBACK << 4, 2, rest[0], rest[1]}
				} else {
					pending = []byte{typePUBREC << 4, 2, rest[0], rest[1]}
				}
				got = true
			case typePUBREL:
				delete(marker, uint16(p[2])<<8|uint16(p[3]))
				wire = append(wire, typePUBCOMP<<4, 2, p[2], p[3])
			}
		}
	}
}

// govcFlaky fails the n-th Save once (a Persistence that recovers), everything else passes through.
type govcFlaky struct {
	Persistence
	failAt, saves int
}

var govcInjected = errors.New("injected Save failure")

func (f *govcFlaky) Save(key uint, value net.Buffers) error {
	f.saves++
	if f.saves == f.failAt {
		return govcInjected
	}
	return f.Persistence.Save(key, value)
}

func govcRunScript(script []govcInPacket, chunk, failSave int) (bad string) {
	defer func() {
		if r := recover(); r != nil {
			bad = fmt.Sprint("panic: ", r)
		}
	}()
	c, err := VolatileSession("govc", &Config{Dialer: func(context.Context) (net.Conn, error) { return nil, errors.New("no dial") }})
	if err != nil {
		return err.Error()
	}
	conn := &govcConn{}
	var stream []byte
	for _, p := range script {
		stream = append(stream, p.bytes...)
	}
	for len(stream) > 0 {
		n := chunk
		if n > len(stream) {
			n = len(stream)
		}
		conn.reads = append(conn.reads, stream[:n])
		stream = stream[n:]
	}
	<-c.connSem
	c.connSem <- conn
	<-c.writeSem
	c.writeSem <- conn
	c.readConn = conn
	c.bufr = bufio.NewReaderSize(conn, readBufSize)
	if failSave > 0 {
		c.persistence = &govcFlaky{Persistence: c.persistence, failAt: failSave}
	}
	var delivered []string
	for calls := 0; calls < len(script)+4; calls++ {
		m, _, err := c.ReadSlices()
		if errors.Is(err, govcInjected) {
			continue // the application tries again; nothing may be lost, repeated or skipped because of it
		}
		if err != nil {
			break
		}
		delivered = append(delivered, string(m))
	}
	wantD, wantW := govcReference(script)
	var names []string
	for _, p := range script {
		names = append(names, p.kind)
	}
	if fmt.Sprint(delivered) != fmt.Sprint(wantD) || !bytes.Equal(conn.wire, wantW) {
		return fmt.Sprintf("script %v in chunks of %d, Save no. %d failing once (0: none): delivered %q and sent %x; the reference receiver delivers %q and sends %x", names, chunk, failSave, delivered, conn.wire, wantD, wantW)
	}
	return ""
}

// Bounded search on the real read routine: scripts of up to 4 packets over 7 packet shapes, whole and
// byte-by-byte fragmentation, without and with one transient Save failure of the Persistence (the first or the
// second Save) (C04, C06, C07, C13 at the level of what is delivered and what is answered).
func TestGovcReplay(t *testing.T) {
	govcLoad(t)
	alpha := []govcInPacket{
		govcPublish(0, false, 0, "t", "zero"), govcPublish(1, false, 5, "t", "one"), govcPublish(2, false, 7, "t", "two"),
		govcPublish(2, true, 7, "t", "two"), govcPubrel(7), govcPubrel(9), govcPublish(1, true, 5, "u", ""),
	}
	tried := 0
	var rec func(cur []govcInPacket) bool
	rec = func(cur []govcInPacket) bool {
		if len(cur) > 0 {
			for _, chunk := range []int{1 << 20, 1} {
				for failSave := 0; failSave <= 2; failSave++ {
					tried++
					if bad := govcRunScript(cur, chunk, failSave); bad != "" {
						t.Logf("REPLAY: reproduced: %s", bad)
						return true
					}
				}
			}
		}
		if len(cur) == 4 {
			return false
		}
		for _, a := range alpha {
			if rec(append(append([]govcInPacket{}, cur...), a)) {
				return true
			}
		}
		return false
	}
	if !rec(nil) {
		t.Logf("REPLAY: not reproduced in %d scripted connections (bounded search)", tried)
	}
}
