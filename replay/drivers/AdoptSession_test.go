package mqtt

// Replay driver (injected with `go test -overlay` by govc; nothing is written to /repo).
// It runs the REAL function on the solver's input where the model is a complete
// input, plus a small deterministic neighbourhood search (bounds stated below),
// and evaluates a property-level oracle written independently of the contract.

import (
	"bufio"
	"bytes"
	"context"
	"encoding/json"
	"errors"
	"fmt"
	"hash/fnv"
	"net"
	"os"
	"testing"
	"time"
)

var _ = bufio.ErrBufferFull
var _ = bytes.Equal
var _ = context.Canceled
var _ = errors.New
var _ = fmt.Sprint
var _ = fnv.New32a
var _ net.Conn
var _ = time.Second

type govcReplay struct {
	Obligation string         `json:"obligation"`
	Inputs     map[string]any `json:"inputs"`
}

func govcLoad(t *testing.T) govcReplay {
	var r govcReplay
	data, err := os.ReadFile(os.Getenv("GOVC_REPLAY"))
	if err != nil {
		t.Skip("no replay file")
	}
	json.Unmarshal(data, &r)
	if r.Inputs == nil {
		r.Inputs = map[string]any{}
	}
	return r
}

func govcInt(m map[string]any, k string, def int64) int64 {
	switch v := m[k].(type) {
	case float64:
		return int64(v)
	case string:
		var n int64
		neg := false
		for i, c := range v {
			if i == 0 && c == '-' {
				neg = true
				continue
			}
			if c < '0' || c > '9' {
				return def
			}
			n = n*10 + int64(c-'0')
		}
		if neg {
			n = -n
		}
		return n
	}
	return def
}

func govcInts(m map[string]any, k string) []int64 {
	var out []int64
	if l, ok := m[k].([]any); ok {
		for _, e := range l {
			out = append(out, int64(e.(float64)))
		}
	}
	return out
}

func govcBytes(m map[string]any, k string) []byte {
	n := govcInt(m, k+".len", 0)
	if n < 0 || n > 300<<20 {
		return nil
	}
	b := make([]byte, n)
	for i, e := range govcInts(m, k) {
		if i < len(b) {
			b[i] = byte(e)
		}
	}
	return b
}

type govcTimeout struct{}

func (govcTimeout) Error() string   { return "i/o timeout" }
func (govcTimeout) Timeout() bool   { return true }
func (govcTimeout) Temporary() bool { return true }

// govcConn: scripted connection. Each write step accepts n bytes and then
// returns nil (kind 0), a timeout (kind 1) or a hard error (kind 2).
type govcConn struct {
	net.Conn
	steps  [][2]int
	wire   []byte
	closed bool
	reads  [][]byte // nil chunk: timeout
}

func (c *govcConn) Write(p []byte) (int, error) {
	if len(c.steps) == 0 {
		c.wire = append(c.wire, p...)
		return len(p), nil
	}
	s := c.steps[0]
	c.steps = c.steps[1:]
	n := s[0]
	if n > len(p) {
		n = len(p)
	}
	c.wire = append(c.wire, p[:n]...)
	switch {
	case s[1] == 1:
		return n, govcTimeout{}
	case s[1] == 2:
		return n, errors.New("hard write error")
	case n < len(p):
		return n, errors.New("short write")
	}
	return n, nil
}
func (c *govcConn) Read(p []byte) (int, error) {
	if len(c.reads) == 0 {
		return 0, errors.New("script exhausted")
	}
	ch := c.reads[0]
	c.reads = c.reads[1:]
	if ch == nil {
		return 0, govcTimeout{}
	}
	n := copy(p, ch)
	if n < len(ch) {
		c.reads = append([][]byte{ch[n:]}, c.reads...)
	}
	return n, nil
}
func (c *govcConn) Close() error                     { c.closed = true; return nil }
func (c *govcConn) SetWriteDeadline(time.Time) error { return nil }
func (c *govcConn) SetReadDeadline(time.Time) error  { return nil }
func (c *govcConn) SetDeadline(time.Time) error      { return nil }



// One record of a generated store.
type govcRec struct {
	key     uint
	typ     byte // packet type nibble (3 PUBLISH, 6 PUBREL)
	seq     uint64
	damaged bool
}

func govcStore(t *testing.T, recs []govcRec) Persistence {
	p := newVolatile()
	if err := p.Save(clientIDKey, net.Buffers{[]byte("govc")}); err != nil {
		t.Fatal(err)
	}
	for _, r := range recs {
		packet := []byte{r.typ << 4, 2, byte(r.key >> 8), byte(r.key)}
		if r.typ == typePUBLISH {
			packet = []byte{r.typ<<4 | 2, 5, 0, 1, 't', byte(r.key >> 8), byte(r.key)}
		}
		if err := p.Save(r.key, encodeValue(net.Buffers{packet}, r.seq)); err != nil {
			t.Fatal(err)
		}
		if r.damaged {
			v, _ := p.Load(r.key)
			v[len(v)-1] ^= 0x55
		}
	}
	return p
}

// govcOracle states what the properties promise of one adoption (C02, C16, C17), independently of the
// contract text: no panic; a failure only for a cause; every identifier of the adopted windows backed by a
// checksum-valid record of the right packet type; counters and placeholder queues consistent; the storage
// sequence continued after every record present.
func govcOracle(recs []govcRec, alMax, eoMax int) (bad string) {
	defer func() {
		if r := recover(); r != nil {
			bad = fmt.Sprint("panic: ", r)
		}
	}()
	var t testing.T
	p := govcStore(&t, recs)
	cfg := &Config{Dialer: func(context.Context) (net.Conn, error) { return nil, errors.New("no dial") }, AtLeastOnceMax: alMax, ExactlyOnceMax: eoMax}
	c, warn, err := AdoptSession(p, cfg)
	norm := func(n int) int {
		if n < 0 || n > 0x3fff {
			return 0x4000
		}
		return n
	}
	if err != nil {
		// the only cause left with a working store and a valid configuration: more pending than allowed
		if len(recs) <= norm(alMax) && len(recs) <= norm(eoMax) {
			return fmt.Sprintf("fails without cause: %v", err)
		}
		return ""
	}
	valid := func(key uint, typ byte) bool {
		v, _ := p.Load(key)
		packet, _, derr := decodeValue(v)
		return v != nil && derr == nil && len(packet) > 0 && packet[0]>>4 == typ
	}
	al := <-c.atLeastOnce.seqSem
	eo := <-c.exactlyOnce.seqSem
	if al.acceptN-c.Acked != uint(len(c.atLeastOnce.queue)) || al.submitN != al.acceptN {
		return fmt.Sprintf("at-least-once counters Acked=%d acceptN=%d submitN=%d for %d placeholders", c.Acked, al.acceptN, al.submitN, len(c.atLeastOnce.queue))
	}
	if !(c.Completed <= c.Received && c.Received <= eo.acceptN) || eo.acceptN-c.Completed != uint(len(c.exactlyOnce.queue)) || eo.submitN != eo.acceptN {
		return fmt.Sprintf("exactly-once counters Completed=%d Received=%d acceptN=%d submitN=%d for %d placeholders", c.Completed, c.Received, eo.acceptN, eo.submitN, len(c.exactlyOnce.queue))
	}
	for s := c.Acked; s < al.acceptN; s++ {
		if !valid(s&publishIDMask|atLeastOnceIDSpace, typePUBLISH) {
			return fmt.Sprintf("at-least-once window [%d, %d) has no PUBLISH record for %d", c.Acked, al.acceptN, s)
		}
	}
	for s := c.Completed; s < c.Received; s++ {
		if !valid(s&publishIDMask|exactlyOnceIDSpace, typePUBREL) {
			return fmt.Sprintf("exactly-once window [%d, %d) has no PUBREL record for %d", c.Completed, c.Received, s)
		}
	}
	for s := c.Received; s < eo.acceptN; s++ {
		if !valid(s&publishIDMask|exactlyOnceIDSpace, typePUBLISH) {
			return fmt.Sprintf("exactly-once window [%d, %d) has no PUBLISH record for %d", c.Received, eo.acceptN, s)
		}
	}
	// a store as a run leaves it (every record intact, each key list contiguous in storage order, the
	// PUBLISH run continuing the PUBREL run) is adopted whole and without warnings (C02)
	if clean, nAL, nEO := govcClean(recs); clean {
		if len(warn) != 0 || len(c.atLeastOnce.queue) != nAL || len(c.exactlyOnce.queue) != nEO {
			return fmt.Sprintf("a clean store is not adopted whole: %d warnings %v, %d of %d at-least-once and %d of %d exactly-once transfers pending", len(warn), warn, len(c.atLeastOnce.queue), nAL, len(c.exactlyOnce.queue), nEO)
		}
	}
	rp, ok := c.persistence.(*ruggedPersistence)
	if !ok {
		return "adopted client without ruggedPersistence"
	}
	for _, r := range recs {
		if !r.damaged && rp.seqNo.Load() < r.seq {
			return fmt.Sprintf("storage sequence continues at %d, below the record %#x saved with %d", rp.seqNo.Load(), r.key, r.seq)
		}
	}
	return ""
}

// govcClean: whether the records, in storage order, form contiguous runs per key list, with the
// exactly-once PUBLISH run continuing the PUBREL run; and how many of each level there are.
func govcClean(recs []govcRec) (clean bool, nAL, nEO int) {
	byseq := append([]govcRec{}, recs...)
	for i := range byseq {
		for j := i + 1; j < len(byseq); j++ {
			if byseq[j].seq < byseq[i].seq {
				byseq[i], byseq[j] = byseq[j], byseq[i]
			}
		}
	}
	var al, pub, rel []uint
	for _, r := range byseq {
		if r.damaged {
			return false, 0, 0
		}
		switch {
		case r.key&^publishIDMask == atLeastOnceIDSpace:
			al = append(al, r.key)
		case r.typ == typePUBREL:
			rel = append(rel, r.key)
		default:
			pub = append(pub, r.key)
		}
	}
	run := func(l []uint) bool {
		for i := 1; i < len(l); i++ {
			if l[i]&publishIDMask != (l[i-1]+1)&publishIDMask {
				return false
			}
		}
		return true
	}
	if !run(al) || !run(pub) || !run(rel) {
		return false, 0, 0
	}
	if len(pub) > 0 && len(rel) > 0 && pub[0]&publishIDMask != (rel[len(rel)-1]+1)&publishIDMask {
		return false, 0, 0
	}
	return true, len(al), len(pub) + len(rel)
}

// Bounded search on the real AdoptSession: stores of up to 4 records drawn from 9 (key, type) slots around the
// identifier wrap of both key spaces (listed so that ascending storage order makes contiguous picks clean stores, wrap included), storage order ascending or descending, at most one record damaged,
// limits in {-1, 0, 1, 3, 20000}. (The solver model of a store is not replayed: it lives in ghost state.)
func TestGovcReplay(t *testing.T) {
	govcLoad(t)
	slots := []govcRec{
		{key: 0xbfff, typ: typePUBLISH}, {key: 0x8000, typ: typePUBLISH}, {key: 0x8001, typ: typePUBLISH},
		{key: 0xffff, typ: typePUBREL}, {key: 0xc000, typ: typePUBREL}, {key: 0xc001, typ: typePUBREL},
		{key: 0xc001, typ: typePUBLISH}, {key: 0xc002, typ: typePUBLISH}, {key: 0xc003, typ: typePUBLISH},
	}
	limits := []int{-1, 0, 1, 3, 20000}
	tried := 0
	var pick func(from int, cur []govcRec) bool
	try := func(cur []govcRec) bool {
		for _, desc := range []bool{false, true} {
			for dmg := -1; dmg < len(cur); dmg++ {
				recs := make([]govcRec, len(cur))
				for i, r := range cur {
					r.seq = uint64(i + 1)
					if desc {
						r.seq = uint64(len(cur) - i)
					}
					r.damaged = i == dmg
					recs[i] = r
				}
				for _, a := range limits {
					for _, e := range limits {
						tried++
						if bad := govcOracle(recs, a, e); bad != "" {
							t.Logf("REPLAY: reproduced: AdoptSession on the store %+v with AtLeastOnceMax=%d ExactlyOnceMax=%d: %s", recs, a, e, bad)
							return true
						}
					}
				}
			}
		}
		return false
	}
	pick = func(from int, cur []govcRec) bool {
		if try(cur) {
			return true
		}
		if len(cur) == 4 {
			return false
		}
		for i := from; i < len(slots); i++ {
			dup := false
			for _, r := range cur {
				if r.key == slots[i].key {
					dup = true
				}
			}
			if dup {
				continue
			}
			if pick(i+1, append(append([]govcRec{}, cur...), slots[i])) {
				return true
			}
		}
		return false
	}
	if !pick(0, nil) {
		t.Logf("REPLAY: not reproduced in %d adoptions (bounded search)", tried)
	}
}
