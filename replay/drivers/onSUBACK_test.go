package mqtt

// Replay driver (injected with `go test -overlay` by govc; nothing is written to /repo).
// It runs the REAL function on the solver's input where the model is a complete
// input, plus a small deterministic neighbourhood search (bounds stated below),
// and evaluates a property-level oracle written independently of the contract.

import (
	"bufio"
	"bytes"
	"context"
	"encoding/json"
	"errors"
	"fmt"
	"hash/fnv"
	"net"
	"os"
	"testing"
	"time"
)

var _ = bufio.ErrBufferFull
var _ = bytes.Equal
var _ = context.Canceled
var _ = errors.New
var _ = fmt.Sprint
var _ = fnv.New32a
var _ net.Conn
var _ = time.Second

type govcReplay struct {
	Obligation string         `json:"obligation"`
	Inputs     map[string]any `json:"inputs"`
}

func govcLoad(t *testing.T) govcReplay {
	var r govcReplay
	data, err := os.ReadFile(os.Getenv("GOVC_REPLAY"))
	if err != nil {
		t.Skip("no replay file")
	}
	json.Unmarshal(data, &r)
	if r.Inputs == nil {
		r.Inputs = map[string]any{}
	}
	return r
}

func govcInt(m map[string]any, k string, def int64) int64 {
	switch v := m[k].(type) {
	case float64:
		return int64(v)
	case string:
		var n int64
		neg := false
		for i, c := range v {
			if i == 0 && c == '-' {
				neg = true
				continue
			}
			if c < '0' || c > '9' {
				return def
			}
			n = n*10 + int64(c-'0')
		}
		if neg {
			n = -n
		}
		return n
	}
	return def
}

func govcInts(m map[string]any, k string) []int64 {
	var out []int64
	if l, ok := m[k].([]any); ok {
		for _, e := range l {
			out = append(out, int64(e.(float64)))
		}
	}
	return out
}

func govcBytes(m map[string]any, k string) []byte {
	n := govcInt(m, k+".len", 0)
	if n < 0 || n > 300<<20 {
		return nil
	}
	b := make([]byte, n)
	for i, e := range govcInts(m, k) {
		if i < len(b) {
			b[i] = byte(e)
		}
	}
	return b
}

type govcTimeout struct{}

func (govcTimeout) Error() string   { return "i/o timeout" }
func (govcTimeout) Timeout() bool   { return true }
func (govcTimeout) Temporary() bool { return true }

// govcConn: scripted connection. Each write step accepts n bytes and then
// returns nil (kind 0), a timeout (kind 1) or a hard error (kind 2).
type govcConn struct {
	net.Conn
	steps  [][2]int
	wire   []byte
	closed bool
	reads  [][]byte // nil chunk: timeout
}

func (c *govcConn) Write(p []byte) (int, error) {
	if len(c.steps) == 0 {
		c.wire = append(c.wire, p...)
		return len(p), nil
	}
	s := c.steps[0]
	c.steps = c.steps[1:]
	n := s[0]
	if n > len(p) {
		n = len(p)
	}
	c.wire = append(c.wire, p[:n]...)
	switch {
	case s[1] == 1:
		return n, govcTimeout{}
	case s[1] == 2:
		return n, errors.New("hard write error")
	case n < len(p):
		return n, errors.New("short write")
	}
	return n, nil
}
func (c *govcConn) Read(p []byte) (int, error) {
	if len(c.reads) == 0 {
		return 0, errors.New("script exhausted")
	}
	ch := c.reads[0]
	c.reads = c.reads[1:]
	if ch == nil {
		return 0, govcTimeout{}
	}
	n := copy(p, ch)
	if n < len(ch) {
		c.reads = append([][]byte{ch[n:]}, c.reads...)
	}
	return n, nil
}
func (c *govcConn) Close() error                     { c.closed = true; return nil }
func (c *govcConn) SetWriteDeadline(time.Time) error { return nil }
func (c *govcConn) SetReadDeadline(time.Time) error  { return nil }
func (c *govcConn) SetDeadline(time.Time) error      { return nil }

func govcDocumentedAnswer(err error) bool {
	var se SubscribeError
	return errors.Is(err, ErrSubmit) || errors.Is(err, ErrBreak) || errors.Is(err, ErrAbandoned) || errors.As(err, &se)
}

func govcNotSubmittedClass(err error) bool {
	return IsDeny(err) || errors.Is(err, ErrMax) || errors.Is(err, ErrClosed) || errors.Is(err, ErrDown) || errors.Is(err, ErrCanceled)
}

// Bounded sweep of the real onSUBACK: a pending SUBSCRIBE of 1..3 topic filters, answered by a SUBACK
// with 1..4 return codes over {0, 1, 2, 0x80, 3 (illegal)}, for the identifier of the request and for a
// foreign one. Oracle (MQTT 3.1.1 §3.9 and the package documentation of Subscribe): one legal code per
// filter ends the request, with a SubscribeError naming exactly the refused filters if any; anything
// else is a protocol violation, and what the waiting Subscribe is told then is one of the classes the
// documentation lists for a request in limbo (ErrSubmit, ErrBreak, ErrAbandoned), never a
// not-submitted class and never an error outside the list.
func TestGovcReplay(t *testing.T) {
	govcLoad(t)
	codesAlpha := []byte{0, 1, 2, 0x80, 3}
	tried := 0
	run := func(nFilters int, codes []byte, foreign bool) (bad string) {
		defer func() {
			if r := recover(); r != nil {
				bad = fmt.Sprint("panic: ", r)
			}
		}()
		tried++
		c, err := VolatileSession("govc", &Config{Dialer: func(context.Context) (net.Conn, error) {
			return nil, errors.New("no connection")
		}})
		if err != nil {
			return err.Error()
		}
		filters := []string{"a", "b", "c"}[:nFilters]
		id, done, err := c.unorderedTxs.startTx(filters)
		if err != nil {
			return err.Error()
		}
		pid := id
		if foreign {
			pid = id + 1
		}
		c.peek = append([]byte{byte(pid >> 8), byte(pid)}, codes...)
		ret := c.onSUBACK()
		legal, refused := true, []string(nil)
		for i, code := range codes {
			switch code {
			case 0, 1, 2:
			case 0x80:
				if i < nFilters {
					refused = append(refused, filters[i])
				}
			default:
				legal = false
			}
		}
		var answer error
		answered, closed := false, false
		select {
		case e, ok := <-done:
			if ok {
				answer, answered = e, true
				select {
				case _, ok := <-done:
					closed = !ok
				default:
				}
			} else {
				closed = true
			}
		default:
		}
		switch {
		case !legal || foreign:
			if answered || closed {
				return fmt.Sprintf("request touched (answer %v, closed %v) by a SUBACK that is not its answer", answer, closed)
			}
			if !legal && ret == nil {
				return "illegal return code accepted"
			}
		case len(codes) == nFilters:
			if ret != nil {
				return fmt.Sprintf("well-formed SUBACK refused: %v", ret)
			}
			if len(refused) == 0 && (answered || !closed) {
				return fmt.Sprintf("granted subscription answered with %v, closed %v", answer, closed)
			}
			if len(refused) != 0 {
				se, ok := answer.(SubscribeError)
				if !ok || fmt.Sprint([]string(se)) != fmt.Sprint(refused) {
					return fmt.Sprintf("refused filters %v answered with %v", refused, answer)
				}
			}
		default:
			if ret == nil {
				return fmt.Sprintf("%d return codes for %d filters accepted", len(codes), nFilters)
			}
			if answered && (!govcDocumentedAnswer(answer) || govcNotSubmittedClass(answer)) {
				return fmt.Sprintf("Subscribe is answered with an error outside its documented classes: %v", answer)
			}
		}
		return ""
	}
	var rec func(nFilters int, codes []byte) bool
	rec = func(nFilters int, codes []byte) bool {
		if len(codes) > 0 {
			for _, foreign := range []bool{false, true} {
				if bad := run(nFilters, codes, foreign); bad != "" {
					t.Logf("REPLAY: reproduced: SUBSCRIBE with %d topic filters, SUBACK return codes %#x (foreign identifier: %v): %s", nFilters, codes, foreign, bad)
					return true
				}
			}
		}
		if len(codes) == 4 {
			return false
		}
		for _, c := range codesAlpha {
			if rec(nFilters, append(append([]byte{}, codes...), c)) {
				return true
			}
		}
		return false
	}
	for n := 1; n <= 3; n++ {
		if rec(n, nil) {
			return
		}
	}
	t.Logf("REPLAY: not reproduced in %d SUBACK packets (1..3 filters, 1..4 return codes over 5 values, own and foreign identifier)", tried)
}
