package mqtttest

// Replay driver for the mqtttest doubles: a recording testing.TB and a bounded enumeration of
// expectations x invocations (each field equal or different independently, surplus and missing calls).

import (
	"encoding/json"
	"errors"
	"fmt"
	"os"
	"testing"

	"github.com/pascaldekloe/mqtt"
)

var _ = errors.New
var _ = fmt.Sprint
var _ = mqtt.ErrCanceled

type govcTB struct {
	testing.TB
	reports  int
	cleanups []func()
}

func (r *govcTB) Helper()                         {}
func (r *govcTB) Errorf(string, ...any)           { r.reports++ }
func (r *govcTB) Error(...any)                    { r.reports++ }
func (r *govcTB) Fatalf(string, ...any)           { r.reports++; panic("fatal") }
func (r *govcTB) Cleanup(f func())                { r.cleanups = append(r.cleanups, f) }

func govcLoad(t *testing.T) {
	var r map[string]any
	data, err := os.ReadFile(os.Getenv("GOVC_REPLAY"))
	if err != nil {
		t.Skip("no replay file")
	}
	json.Unmarshal(data, &r)
}

func TestGovcReplay(t *testing.T) {
	govcLoad(t)
	stub := NewReadSlicesStub(Transfer{Message: []byte("hello"), Topic: "greet", Err: nil})
	m1, t1, _ := stub()
	for i := range m1 {
		m1[i] = 'X'
	}
	for i := range t1 {
		t1[i] = 'Y'
	}
	m2, t2, _ := stub()
	if string(m2) != "hello" || string(t2) != "greet" {
		t.Logf("REPLAY: reproduced: second read of the stub returned %q @ %q after the first result was overwritten (shared memory)", m2, t2)
		return
	}
	if len(m1) > 0 && len(t1) > 0 && (&m1[0] == &m2[0] || &t1[0] == &t2[0]) {
		t.Logf("REPLAY: reproduced: stub results share memory")
		return
	}
	t.Logf("REPLAY: not reproduced (results are private copies)")
}
