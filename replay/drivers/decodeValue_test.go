package mqtt

// Replay driver (injected with `go test -overlay` by govc; nothing is written to /repo).
// It runs the REAL function on the solver's input where the model is a complete
// input, plus a small deterministic neighbourhood search (bounds stated below),
// and evaluates a property-level oracle written independently of the contract.

import (
	"bufio"
	"bytes"
	"context"
	"encoding/json"
	"errors"
	"fmt"
	"hash/fnv"
	"net"
	"os"
	"testing"
	"time"
)

var _ = bufio.ErrBufferFull
var _ = bytes.Equal
var _ = context.Canceled
var _ = errors.New
var _ = fmt.Sprint
var _ = fnv.New32a
var _ net.Conn
var _ = time.Second

type govcReplay struct {
	Obligation string         `json:"obligation"`
	Inputs     map[string]any `json:"inputs"`
}

func govcLoad(t *testing.T) govcReplay {
	var r govcReplay
	data, err := os.ReadFile(os.Getenv("GOVC_REPLAY"))
	if err != nil {
		t.Skip("no replay file")
	}
	json.Unmarshal(data, &r)
	if r.Inputs == nil {
		r.Inputs = map[string]any{}
	}
	return r
}

func govcInt(m map[string]any, k string, def int64) int64 {
	switch v := m[k].(type) {
	case float64:
		return int64(v)
	case string:
		var n int64
		neg := false
		for i, c := range v {
			if i == 0 && c == '-' {
				neg = true
				continue
			}
			if c < '0' || c > '9' {
				return def
			}
			n = n*10 + int64(c-'0')
		}
		if neg {
			n = -n
		}
		return n
	}
	return def
}

func govcInts(m map[string]any, k string) []int64 {
	var out []int64
	if l, ok := m[k].([]any); ok {
		for _, e := range l {
			out = append(out, int64(e.(float64)))
		}
	}
	return out
}

func govcBytes(m map[string]any, k string) []byte {
	n := govcInt(m, k+".len", 0)
	if n < 0 || n > 300<<20 {
		return nil
	}
	b := make([]byte, n)
	for i, e := range govcInts(m, k) {
		if i < len(b) {
			b[i] = byte(e)
		}
	}
	return b
}

type govcTimeout struct{}

func (govcTimeout) Error() string   { return "i/o timeout" }
func (govcTimeout) Timeout() bool   { return true }
func (govcTimeout) Temporary() bool { return true }

// govcConn: scripted connection. Each write step accepts n bytes and then
// returns nil (kind 0), a timeout (kind 1) or a hard error (kind 2).
type govcConn struct {
	net.Conn
	steps  [][2]int
	wire   []byte
	closed bool
	reads  [][]byte // nil chunk: timeout
}

func (c *govcConn) Write(p []byte) (int, error) {
	if len(c.steps) == 0 {
		c.wire = append(c.wire, p...)
		return len(p), nil
	}
	s := c.steps[0]
	c.steps = c.steps[1:]
	n := s[0]
	if n > len(p) {
		n = len(p)
	}
	c.wire = append(c.wire, p[:n]...)
	switch {
	case s[1] == 1:
		return n, govcTimeout{}
	case s[1] == 2:
		return n, errors.New("hard write error")
	case n < len(p):
		return n, errors.New("short write")
	}
	return n, nil
}
func (c *govcConn) Read(p []byte) (int, error) {
	if len(c.reads) == 0 {
		return 0, errors.New("script exhausted")
	}
	ch := c.reads[0]
	c.reads = c.reads[1:]
	if ch == nil {
		return 0, govcTimeout{}
	}
	n := copy(p, ch)
	if n < len(ch) {
		c.reads = append([][]byte{ch[n:]}, c.reads...)
	}
	return n, nil
}
func (c *govcConn) Close() error                     { c.closed = true; return nil }
func (c *govcConn) SetWriteDeadline(time.Time) error { return nil }
func (c *govcConn) SetReadDeadline(time.Time) error  { return nil }
func (c *govcConn) SetDeadline(time.Time) error      { return nil }


func govcEncodeRef(packet []byte, seqNo uint64) []byte {
	out := append([]byte{}, packet...)
	for i := 0; i < 8; i++ {
		out = append(out, byte(seqNo>>(8*i)))
	}
	h := fnv.New32a()
	h.Write(out)
	s := h.Sum32()
	return append(out, byte(s>>24), byte(s>>16), byte(s>>8), byte(s))
}

// Round trip against a reference encoder, every truncation and every single-byte damage of
// records for packets of 0..4 bytes and a few sequence numbers (bounded).
func TestGovcReplay(t *testing.T) {
	r := govcLoad(t)
	if buf := govcBytes(r.Inputs, "buf"); buf != nil {
		p, s, err := decodeValue(buf)
		if err == nil && len(buf) >= 12 && !bytes.Equal(govcEncodeRef(p, s), buf) {
			t.Logf("REPLAY: reproduced: decodeValue accepted %x which is not a well-formed record", buf)
			return
		}
		if err == nil && len(buf) < 12 {
			t.Logf("REPLAY: reproduced: decodeValue accepted a %d-byte value", len(buf))
			return
		}
	}
	tried := 0
	for plen := 0; plen <= 4; plen++ {
		for _, seq := range []uint64{0, 1, 1 << 32, 1<<64 - 1} {
			packet := []byte{0x32, 1, 2, 3}[:plen]
			rec := govcEncodeRef(packet, seq)
			p, s, err := decodeValue(append([]byte{}, rec...))
			tried++
			if err != nil || !bytes.Equal(p, packet) || s != seq {
				t.Logf("REPLAY: reproduced: decodeValue(%x) = %x, %d, %v", rec, p, s, err)
				return
			}
			enc := encodeValue(net.Buffers{append([]byte{}, packet...)}, seq)
			var flat []byte
			for _, b := range enc {
				flat = append(flat, b...)
			}
			if !bytes.Equal(flat, rec) {
				t.Logf("REPLAY: reproduced: encodeValue(%x, %d) = %x, want %x", packet, seq, flat, rec)
				return
			}
			for cut := 0; cut < len(rec); cut++ {
				tried++
				if _, _, err := decodeValue(append([]byte{}, rec[:cut]...)); err == nil && cut < 12 {
					t.Logf("REPLAY: reproduced: truncated record %x accepted", rec[:cut])
					return
				}
			}
			for i := range rec {
				for d := 1; d < 256; d += 37 {
					dam := append([]byte{}, rec...)
					dam[i] ^= byte(d)
					tried++
					if _, _, err := decodeValue(dam); err == nil {
						t.Logf("REPLAY: reproduced: damaged record %x (byte %d) accepted", dam, i)
						return
					}
				}
			}
		}
	}
	t.Logf("REPLAY: not reproduced (%d records agree with the reference)", tried)
}
