package mqtt

// Replay driver (injected with `go test -overlay` by govc; nothing is written to /repo).
// It runs the REAL function on the solver's input where the model is a complete
// input, plus a small deterministic neighbourhood search (bounds stated below),
// and evaluates a property-level oracle written independently of the contract.

import (
	"bufio"
	"bytes"
	"context"
	"encoding/json"
	"errors"
	"fmt"
	"hash/fnv"
	"net"
	"os"
	"strings"
	"testing"
	"time"
)

var _ = bufio.ErrBufferFull
var _ = bytes.Equal
var _ = context.Canceled
var _ = errors.New
var _ = fmt.Sprint
var _ = fnv.New32a
var _ net.Conn
var _ = time.Second

type govcReplay struct {
	Obligation string         `json:"obligation"`
	Inputs     map[string]any `json:"inputs"`
}

func govcLoad(t *testing.T) govcReplay {
	var r govcReplay
	data, err := os.ReadFile(os.Getenv("GOVC_REPLAY"))
	if err != nil {
		t.Skip("no replay file")
	}
	json.Unmarshal(data, &r)
	if r.Inputs == nil {
		r.Inputs = map[string]any{}
	}
	return r
}

func govcInt(m map[string]any, k string, def int64) int64 {
	switch v := m[k].(type) {
	case float64:
		return int64(v)
	case string:
		var n int64
		neg := false
		for i, c := range v {
			if i == 0 && c == '-' {
				neg = true
				continue
			}
			if c < '0' || c > '9' {
				return def
			}
			n = n*10 + int64(c-'0')
		}
		if neg {
			n = -n
		}
		return n
	}
	return def
}

func govcInts(m map[string]any, k string) []int64 {
	var out []int64
	if l, ok := m[k].([]any); ok {
		for _, e := range l {
			out = append(out, int64(e.(float64)))
		}
	}
	return out
}

func govcBytes(m map[string]any, k string) []byte {
	n := govcInt(m, k+".len", 0)
	if n < 0 || n > 300<<20 {
		return nil
	}
	b := make([]byte, n)
	for i, e := range govcInts(m, k) {
		if i < len(b) {
			b[i] = byte(e)
		}
	}
	return b
}

type govcTimeout struct{}

func (govcTimeout) Error() string   { return "i/o timeout" }
func (govcTimeout) Timeout() bool   { return true }
func (govcTimeout) Temporary() bool { return true }

// govcConn: scripted connection. Each write step accepts n bytes and then
// returns nil (kind 0), a timeout (kind 1) or a hard error (kind 2).
type govcConn struct {
	net.Conn
	steps  [][2]int
	wire   []byte
	closed bool
	reads  [][]byte // nil chunk: timeout
}

func (c *govcConn) Write(p []byte) (int, error) {
	if len(c.steps) == 0 {
		c.wire = append(c.wire, p...)
		return len(p), nil
	}
	s := c.steps[0]
	c.steps = c.steps[1:]
	n := s[0]
	if n > len(p) {
		n = len(p)
	}
	c.wire = append(c.wire, p[:n]...)
	switch {
	case s[1] == 1:
		return n, govcTimeout{}
	case s[1] == 2:
		return n, errors.New("hard write error")
	case n < len(p):
		return n, errors.New("short write")
	}
	return n, nil
}
func (c *govcConn) Read(p []byte) (int, error) {
	if len(c.reads) == 0 {
		return 0, errors.New("script exhausted")
	}
	ch := c.reads[0]
	c.reads = c.reads[1:]
	if ch == nil {
		return 0, govcTimeout{}
	}
	n := copy(p, ch)
	if n < len(ch) {
		c.reads = append([][]byte{ch[n:]}, c.reads...)
	}
	return n, nil
}
func (c *govcConn) Close() error                     { c.closed = true; return nil }
func (c *govcConn) SetWriteDeadline(time.Time) error { return nil }
func (c *govcConn) SetReadDeadline(time.Time) error  { return nil }
func (c *govcConn) SetDeadline(time.Time) error      { return nil }

// ---- error values as recipes: every check builds its own tree, so that a walk which writes into the
// slices of the value it classifies cannot hide behind an earlier run ----

type govcIsErr struct{ target error } // matches by its Is method only

func (e *govcIsErr) Error() string   { return "is-method error" }
func (e *govcIsErr) Is(t error) bool { return t == e.target }

type govcMulti struct {
	msg  string
	errs []error // handed out as is, spare capacity and nil entries included
}

func (e *govcMulti) Error() string {
	s := e.msg + "["
	for _, w := range e.errs {
		if w != nil {
			s += w.Error() + ";"
		} else {
			s += "<nil>;"
		}
	}
	return s + "]"
}
func (e *govcMulti) Unwrap() []error { return e.errs }

type govcChainNil struct{} // Unwrap() error answering nil

func (govcChainNil) Error() string { return "chain end" }
func (govcChainNil) Unwrap() error { return nil }

type govcRecipe struct {
	kind string // leaf kinds, or: wrap join multi2 spare
	leaf int
	kids []*govcRecipe
}

var govcLeafNames = []string{"plain", "ErrClosed", "errNull", "ErrCanceled", "isCanceled", "chainNil", "ErrAbandoned", "errZero"}

func (r *govcRecipe) build() error {
	switch r.kind {
	case "leaf":
		switch govcLeafNames[r.leaf] {
		case "plain":
			return errors.New("plain")
		case "ErrClosed":
			return ErrClosed
		case "errNull":
			return errNull
		case "ErrCanceled":
			return ErrCanceled
		case "isCanceled":
			return &govcIsErr{ErrCanceled}
		case "chainNil":
			return govcChainNil{}
		case "ErrAbandoned":
			return ErrAbandoned
		case "errZero":
			return errZero
		}
	case "wrap":
		return fmt.Errorf("wrap: %w", r.kids[0].build())
	case "join":
		var es []error
		for _, k := range r.kids {
			es = append(es, k.build())
		}
		return errors.Join(es...)
	case "multi2":
		return fmt.Errorf("%w and %w", r.kids[0].build(), r.kids[1].build())
	case "spare":
		// a custom Unwrap() []error with a nil entry and spare capacity behind its length
		es := make([]error, 0, len(r.kids)+3)
		for _, k := range r.kids {
			es = append(es, k.build())
		}
		es = append(es, nil)
		return &govcMulti{"spare", es}
	}
	panic("recipe")
}

func (r *govcRecipe) String() string {
	if r.kind == "leaf" {
		return govcLeafNames[r.leaf]
	}
	s := r.kind + "("
	for i, k := range r.kids {
		if i > 0 {
			s += ", "
		}
		s += k.String()
	}
	return s + ")"
}

// The reference: errors.Is per target, on a tree of its own.
func govcRefAny(r *govcRecipe, matches []error) bool {
	e := r.build()
	for _, m := range matches {
		if errors.Is(e, m) {
			return true
		}
	}
	return false
}

// Bounded sweep: all trees of depth <= 2 over 8 leaves with the combinators wrap, join (2 and 3
// children), multi-%w and a custom Unwrap() []error, and depth-3 trees built from a stride sample
// of those; per tree the target lists denyErrs, endErrs and connClosedErrors, in every order of
// two consecutive classifications. Oracle: the answer equals errors.Is over the targets, and the
// value classified is afterwards what it was (same text, same errors.Is answers).
func TestGovcReplay(t *testing.T) {
	govcLoad(t)
	lists := []struct {
		name string
		m    []error
	}{{"denyErrs", denyErrs}, {"endErrs", endErrs}, {"connClosedErrors", connClosedErrors}}
	probes := []error{ErrClosed, ErrCanceled, ErrAbandoned, errNull, errZero}

	tried := 0
	check := func(r *govcRecipe) bool {
		for _, first := range lists {
			for _, second := range lists {
				tried++
				e := r.build()
				text := e.Error()
				var before []bool
				for _, p := range probes {
					before = append(before, errors.Is(e, p))
				}
				got1 := nonNilIsAny(e, first.m)
				if want := govcRefAny(r, first.m); got1 != want {
					t.Logf("REPLAY: reproduced: nonNilIsAny(%s, %s) = %v, errors.Is over the targets says %v", r, first.name, got1, want)
					return true
				}
				if e.Error() != text {
					t.Logf("REPLAY: reproduced: nonNilIsAny(%s, %s) changed the error it classified: text %q became %q", r, first.name, text, e.Error())
					return true
				}
				for i, p := range probes {
					if errors.Is(e, p) != before[i] {
						t.Logf("REPLAY: reproduced: after nonNilIsAny(%s, %s) errors.Is(err, %v) is %v, was %v", r, first.name, p, !before[i], before[i])
						return true
					}
				}
				got2 := nonNilIsAny(e, second.m)
				if want := govcRefAny(r, second.m); got2 != want {
					t.Logf("REPLAY: reproduced: nonNilIsAny(%s, %s) = %v after a classification by %s, errors.Is over the targets says %v", r, second.name, got2, first.name, want)
					return true
				}
			}
		}
		return false
	}

	var d0 []*govcRecipe
	for i := range govcLeafNames {
		d0 = append(d0, &govcRecipe{kind: "leaf", leaf: i})
	}
	combine := func(pool, with []*govcRecipe) []*govcRecipe {
		var out []*govcRecipe
		for _, a := range pool {
			out = append(out, &govcRecipe{kind: "wrap", kids: []*govcRecipe{a}})
			for _, b := range with {
				out = append(out, &govcRecipe{kind: "join", kids: []*govcRecipe{a, b}})
				out = append(out, &govcRecipe{kind: "join", kids: []*govcRecipe{b, a}})
				out = append(out, &govcRecipe{kind: "multi2", kids: []*govcRecipe{a, b}})
				out = append(out, &govcRecipe{kind: "spare", kids: []*govcRecipe{a, b}})
				for _, c := range with {
					out = append(out, &govcRecipe{kind: "join", kids: []*govcRecipe{b, a, c}})
					out = append(out, &govcRecipe{kind: "join", kids: []*govcRecipe{b, c, a}})
				}
			}
		}
		return out
	}
	d1 := combine(d0, d0)
	var d1s []*govcRecipe
	for i := 0; i < len(d1); i += 7 {
		d1s = append(d1s, d1[i])
	}
	d2 := combine(d1s, d0)
	var d2s []*govcRecipe
	for i := 0; i < len(d2); i += 211 {
		d2s = append(d2s, d2[i])
	}
	d3 := combine(d2s, d0[:4])
	// values made with the standard library alone first, those with the custom Unwrap() []error after
	for _, custom := range []bool{false, true} {
		for _, pool := range [][]*govcRecipe{d0, d1, d2, d3} {
			for _, r := range pool {
				if strings.Contains(r.String(), "spare(") == custom && check(r) {
					return
				}
			}
		}
	}
	t.Logf("REPLAY: not reproduced in %d classifications of %d error values (depth <= 3)", tried, len(d0)+len(d1)+len(d2)+len(d3))
}
