package mqtt

// Replay driver for publishPacket: runs the real function on the solver's
// input (and a small boundary neighbourhood) and compares with a reference
// MQTT 3.1.1 encoder written independently of the contract.

import (
	"bytes"
	"encoding/json"
	"os"
	"strings"
	"testing"
	"unicode/utf8"
)

type govcReplay struct {
	Obligation string         `json:"obligation"`
	Inputs     map[string]any `json:"inputs"`
}

func govcLoad(t *testing.T) govcReplay {
	var r govcReplay
	data, err := os.ReadFile(os.Getenv("GOVC_REPLAY"))
	if err != nil {
		t.Skip("no replay file")
	}
	json.Unmarshal(data, &r)
	return r
}

func govcInt(m map[string]any, k string, def int64) int64 {
	switch v := m[k].(type) {
	case float64:
		return int64(v)
	case string:
		var n int64
		neg := false
		for i, c := range v {
			if i == 0 && c == '-' {
				neg = true
				continue
			}
			n = n*10 + int64(c-'0')
		}
		if neg {
			n = -n
		}
		return n
	}
	return def
}

func govcBytes(m map[string]any, k string) []byte {
	n := govcInt(m, k+".len", 0)
	if n < 0 || n > 300<<20 {
		return nil
	}
	b := make([]byte, n)
	if l, ok := m[k].([]any); ok {
		for i, e := range l {
			if i < len(b) {
				b[i] = byte(int64(e.(float64)))
			}
		}
	}
	return b
}

func refVarint(n int) []byte {
	var out []byte
	for {
		b := byte(n % 128)
		n /= 128
		if n > 0 {
			out = append(out, b|0x80)
		} else {
			return append(out, b)
		}
	}
}

// refPublish: expected packet, or ok=false when the arguments must be denied.
func refPublish(message []byte, topic string, packetID uint, head byte) (hdr []byte, ok bool) {
	if topic == "" || len(topic) > 65535 || !utf8.ValidString(topic) || strings.IndexByte(topic, 0) >= 0 {
		return nil, false
	}
	rem := 2 + len(topic) + len(message)
	if packetID != 0 {
		rem += 2
	}
	if rem > 268435455 {
		return nil, false
	}
	hdr = append(hdr, head)
	hdr = append(hdr, refVarint(rem)...)
	hdr = append(hdr, byte(len(topic)>>8), byte(len(topic)))
	hdr = append(hdr, topic...)
	if packetID != 0 {
		hdr = append(hdr, byte(packetID>>8), byte(packetID))
	}
	return hdr, true
}

func govcCheckPublish(t *testing.T, message []byte, topic string, packetID uint, head byte) bool {
	var buf [bufSize]byte
	got, err := publishPacket(&buf, message, topic, packetID, head)
	want, ok := refPublish(message, topic, packetID, head)
	switch {
	case !ok && err == nil:
		t.Logf("REPLAY: reproduced: publishPacket accepted invalid arguments: topic %d bytes, message %d bytes, packetID %#x (remaining length %d)", len(topic), len(message), packetID, 2+len(topic)+len(message)+2)
		return true
	case !ok && !IsDeny(err):
		t.Logf("REPLAY: reproduced: denial is not IsDeny: %v", err)
		return true
	case ok && err != nil:
		t.Logf("REPLAY: reproduced: valid arguments refused: %v", err)
		return true
	case ok:
		if len(got) != 2 || !bytes.Equal(got[0], want) || len(got[1]) != len(message) || (len(message) > 0 && &got[1][0] != &message[0]) {
			t.Logf("REPLAY: reproduced: packet differs from the reference encoding: got header %x, want %x", got[0][:min(len(got[0]), 16)], want[:min(len(want), 16)])
			return true
		}
	}
	return false
}

func TestGovcReplay(t *testing.T) {
	r := govcLoad(t)
	in := r.Inputs
	topic := string(govcBytes(in, "topic"))
	message := govcBytes(in, "message")
	if message == nil && govcInt(in, "message.len", 0) > 0 {
		t.Log("REPLAY: model input too large to allocate")
		return
	}
	packetID := uint(govcInt(in, "packetID", 0))
	head := byte(govcInt(in, "head", 0x30))
	if govcCheckPublish(t, message, topic, packetID, head) {
		return
	}
	// neighbourhood: the solver's lengths +-2 and the remaining-length width boundaries (bounded search)
	tried := 0
	for _, id := range []uint{0, packetID | 0x8000} {
		for _, base := range []int{len(message), 127, 16383, 2097151, 268435455} {
			for d := -9; d <= 2; d++ {
				n := base - len(topic) + d
				if n < 0 || n > 269<<20 {
					continue
				}
				tried++
				if govcCheckPublish(t, make([]byte, n), topic, id, head) {
					return
				}
			}
		}
		if topic == "" {
			topic = "t"
		}
	}
	t.Logf("REPLAY: not reproduced (model input and %d neighbours agree with the reference encoder)", tried)
}
