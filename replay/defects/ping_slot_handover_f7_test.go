package mqtt

// F7 (C11), a known finding (not repaired). Run against a tree with
//   go test -overlay <{"Replace":{"<repo>/zz_f7_test.go":"<this file>"}}> -vet=off -run TestF7 .
// Ping keeps its callback channel in the one-slot channel pingAck. When its write fails (or quit fires) it
// "unlocks" by taking whatever is in the slot. If its own channel was already handed to a PINGRESP, the slot
// may hold the channel of the next Ping by then: that Ping is never answered.
//
// Schedule (each step awaited, no sleeps decide the outcome):
//  1. Ping A installs its channel and blocks in the write to the connection.
//  2. The broker sends a PINGRESP nobody asked for; the read routine hands it to A's channel.
//  3. Ping B installs its channel and waits for the write semaphore.
//  4. A's write fails. A takes B's channel out of the slot and returns ErrSubmit.
//  5. The client reconnects, B's PINGREQ goes out, the broker answers - the slot is empty.
// B must return (answer, ErrBreak, ...). On the pinned tree it waits for ever.

import (
	"context"
	"errors"
	"io"
	"net"
	"testing"
	"time"
)

type f7GateConn struct {
	net.Conn
	gate chan error
}

func (c f7GateConn) Write(p []byte) (int, error) {
	if err := <-c.gate; err != nil {
		return 0, err
	}
	return c.Conn.Write(p)
}

func TestF7PingSlotHandOver(t *testing.T) {
	conns := make(chan net.Conn, 4)
	c, err := VolatileSession("f7", &Config{
		Dialer: func(ctx context.Context) (net.Conn, error) {
			a, b := net.Pipe()
			conns <- b
			return a, nil
		},
		PauseTimeout: time.Second,
	})
	if err != nil {
		t.Fatal(err)
	}
	defer c.Close()
	go func() {
		for {
			if _, _, err := c.ReadSlices(); errors.Is(err, ErrClosed) {
				return
			}
		}
	}()
	await := func(what string, cond func() bool) {
		for i := 0; i < 2000; i++ {
			if cond() {
				return
			}
			time.Sleep(time.Millisecond)
		}
		t.Fatalf("schedule: %s not reached", what)
	}
	// a broker that accepts every connection and answers every PINGREQ
	pong := make(chan net.Conn, 4)
	go func() {
		for b := range conns {
			b := b
			go func() {
				var head [2]byte
				if _, err := io.ReadFull(b, head[:]); err != nil {
					return
				}
				io.CopyN(io.Discard, b, int64(head[1]))
				b.Write([]byte{typeCONNACK << 4, 2, 0, 0})
				pong <- b
				for {
					if _, err := io.ReadFull(b, head[:]); err != nil {
						return
					}
					io.CopyN(io.Discard, b, int64(head[1]))
					if head[0]>>4 == typePINGREQ {
						b.Write([]byte{typePINGRESP << 4, 0})
					}
				}
			}()
		}
	}()
	b := <-pong
	select {
	case <-c.Online():
	case <-time.After(2 * time.Second):
		t.Fatal("not online")
	}
	gate := make(chan error)
	conn := <-c.writeSem
	c.writeSem <- f7GateConn{conn, gate}

	gotA := make(chan error, 1)
	go func() { gotA <- c.Ping(nil) }()
	await("A in its write", func() bool { return len(c.pingAck) == 1 && len(c.writeSem) == 0 })
	go b.Write([]byte{typePINGRESP << 4, 0}) // unsolicited
	await("A's channel handed to the PINGRESP", func() bool { return len(c.pingAck) == 0 })
	gotB := make(chan error, 1)
	go func() { gotB <- c.Ping(nil) }()
	await("B installed", func() bool { return len(c.pingAck) == 1 })
	gate <- errors.New("broken pipe")
	select {
	case err := <-gotA:
		t.Logf("Ping A: %v", err)
	case <-time.After(2 * time.Second):
		t.Fatal("Ping A did not return")
	}
	select {
	case err := <-gotB:
		t.Logf("Ping B: %v", err)
	case <-time.After(3 * time.Second):
		t.Errorf("Ping B waits for ever: its callback channel was taken out of the slot by Ping A (slot now holds %d)", len(c.pingAck))
	}
}
