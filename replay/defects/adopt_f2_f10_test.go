package mqtt

import (
	"net"
	"testing"
)

// F2: publish 3, acknowledge 2 (delete), adopt, publish 2 more, adopt again: nothing may be dropped.
func TestF2(t *testing.T) {
	p := newVolatile()
	cfg := func() *Config { return &Config{Dialer: n9dial, AtLeastOnceMax: 10, ExactlyOnceMax: 10} }
	c, err := InitSession("x", p, cfg())
	if err != nil {
		t.Fatal(err)
	}
	for i := 0; i < 3; i++ {
		if _, err := c.PublishAtLeastOnce([]byte("m"), "t"); err != nil {
			t.Fatal(err)
		}
	}
	p.Delete(0x8000)
	p.Delete(0x8001)
	a, warn, err := AdoptSession(p, cfg())
	if err != nil || len(warn) != 0 {
		t.Fatalf("first adoption: warn=%v err=%v", warn, err)
	}
	for i := 0; i < 2; i++ {
		if _, err := a.PublishAtLeastOnce([]byte("m"), "t"); err != nil {
			t.Fatal(err)
		}
	}
	b, warn, err := AdoptSession(p, cfg())
	if err != nil {
		t.Fatal(err)
	}
	seq := <-b.atLeastOnce.seqSem
	t.Logf("warn=%v Acked=%#x acceptN=%#x queue=%d", warn, b.Acked, seq.acceptN, len(b.atLeastOnce.queue))
	if len(warn) != 0 || len(b.atLeastOnce.queue) != 3 {
		t.Fatalf("second adoption dropped accepted messages: %v", warn)
	}
}

// F10: PUBREL 0,1 + damaged PUBLISH 2 + PUBLISH 3: every key of the adopted window must have a record.
func TestF10(t *testing.T) {
	p := newVolatile()
	c, err := InitSession("x", p, &Config{Dialer: n9dial, AtLeastOnceMax: 10, ExactlyOnceMax: 10})
	if err != nil {
		t.Fatal(err)
	}
	save := func(id uint, typ byte) {
		if err := c.persistence.Save(id, net.Buffers{{typ, 2, byte(id >> 8), byte(id)}}); err != nil {
			t.Fatal(err)
		}
	}
	save(0xc000, typePUBREL<<4|2)
	save(0xc001, typePUBREL<<4|2)
	save(0xc002, typePUBLISH<<4|4)
	save(0xc003, typePUBLISH<<4|4)
	raw, _ := p.Load(0xc002)
	raw[0] ^= 0xff // damage
	a, warn, err := AdoptSession(p, &Config{Dialer: n9dial, AtLeastOnceMax: 10, ExactlyOnceMax: 10})
	if err != nil {
		t.Fatal(err)
	}
	seq := <-a.exactlyOnce.seqSem
	t.Logf("warn=%v Completed=%d Received=%d acceptN=%d", warn, a.Completed, a.Received, seq.acceptN)
	for s := a.Completed; s < seq.acceptN; s++ {
		v, _ := a.persistence.Load(s&publishIDMask | exactlyOnceIDSpace)
		if v == nil {
			t.Fatalf("adopted window [%d, %d) has no record for sequence number %d", a.Completed, seq.acceptN, s)
		}
	}
}
