package mqtt

import (
	"context"
	"io"
	"net"
	"testing"
	"time"
)

// F3: a QoS 2 PUBLISH that arrives again (DUP) while its marker is stored must be answered with PUBREC again.
func TestF3(t *testing.T) {
	conns := make(chan net.Conn, 2)
	c, err := VolatileSession("f3", &Config{
		Dialer: func(ctx context.Context) (net.Conn, error) {
			a, b := net.Pipe()
			conns <- b
			return a, nil
		},
		PauseTimeout: time.Second,
	})
	if err != nil {
		t.Fatal(err)
	}
	defer c.Close()
	type rd struct {
		msg string
		err error
	}
	reads := make(chan rd, 8)
	go func() {
		for {
			m, _, err := c.ReadSlices()
			reads <- rd{string(m), err}
			if err != nil {
				return
			}
		}
	}()
	b := <-conns
	readPacket := func() []byte {
		b.SetReadDeadline(time.Now().Add(2 * time.Second))
		var head [2]byte
		if _, err := io.ReadFull(b, head[:]); err != nil {
			return nil
		}
		body := make([]byte, head[1])
		io.ReadFull(b, body)
		return append(head[:], body...)
	}
	if p := readPacket(); p == nil || p[0]>>4 != typeCONNECT {
		t.Fatalf("no CONNECT: %x", p)
	}
	b.Write([]byte{typeCONNACK << 4, 2, 0, 0})
	publish := []byte{typePUBLISH<<4 | exactlyOnceLevel<<1, 6, 0, 1, 't', 0, 7, 'm'}
	b.Write(publish)
	if r := <-reads; r.err != nil || r.msg != "m" {
		t.Fatalf("first delivery: %+v", r)
	}
	if p := readPacket(); p == nil || p[0]>>4 != typePUBREC {
		t.Fatalf("no PUBREC for the first PUBLISH: %x", p)
	}
	// the PUBREC got lost: the broker sends the PUBLISH again, marked as duplicate, then something else
	dup := append([]byte{}, publish...)
	dup[0] |= dupeFlag
	go func() {
		b.Write(dup)
		b.Write([]byte{typePUBLISH << 4, 4, 0, 1, 'u', 'x'})
	}()
	p := readPacket()
	if p == nil || p[0]>>4 != typePUBREC || p[2] != 0 || p[3] != 7 {
		t.Fatalf("the duplicate PUBLISH is not answered with PUBREC 7: got %x", p)
	}
	if r := <-reads; r.err != nil || r.msg != "x" {
		t.Fatalf("second delivery: %+v (the duplicate must not be delivered)", r)
	}
}
