package mqtt

// N10 (C14), fixed in /repo commit 82c31df. Run against a tree with
//   go test -overlay <{"Replace":{"<repo>/zz_n10_test.go":"<this file>"}}> -vet=off -run TestN10 .
// Before the fix: IsDeny wrote into the slice an errors.Join value hands out from Unwrap() []error
// (the work stack of nonNilIsAny aliased it and had room again after a pop), so the same value was
// no longer IsEnd, no longer errors.Is ErrClosed, and read differently.

import (
	"errors"
	"fmt"
	"testing"
)

func TestN10ClassifierLeavesItsArgumentAlone(t *testing.T) {
	a, c, d := errors.New("a"), errors.New("c"), errors.New("d")
	err := errors.Join(a, fmt.Errorf("%w and %w", c, d), ErrClosed)
	text := err.Error()
	if !IsEnd(err) {
		t.Fatal("IsEnd false before")
	}
	if IsDeny(err) {
		t.Fatal("IsDeny true")
	}
	if !IsEnd(err) {
		t.Errorf("IsEnd false after IsDeny on the same error")
	}
	if !errors.Is(err, ErrClosed) {
		t.Errorf("errors.Is(err, ErrClosed) false after IsDeny")
	}
	if err.Error() != text {
		t.Errorf("error text changed from %q to %q", text, err.Error())
	}
}
