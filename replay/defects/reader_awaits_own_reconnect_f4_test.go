package mqtt

import (
	"context"
	"errors"
	"io"
	"net"
	"testing"
	"time"
)

// F4: another goroutine's write fails while the read routine holds an acknowledgement to send.
// The next ReadSlices must notice the broken connection (return an error, redial later), not wait for ever.
func TestF4(t *testing.T) {
	conns := make(chan net.Conn, 4)
	c, err := VolatileSession("f4", &Config{
		Dialer: func(ctx context.Context) (net.Conn, error) {
			a, b := net.Pipe()
			conns <- b
			return a, nil
		},
		PauseTimeout: 100 * time.Millisecond,
	})
	if err != nil {
		t.Fatal(err)
	}
	defer c.Close()
	type rd struct {
		msg string
		err error
	}
	reads := make(chan rd, 8)
	next := make(chan struct{})
	go func() {
		for range next {
			m, _, err := c.ReadSlices()
			reads <- rd{string(m), err}
		}
	}()
	next <- struct{}{}
	b := <-conns
	var head [2]byte
	if _, err := io.ReadFull(b, head[:]); err != nil {
		t.Fatal(err)
	}
	io.ReadFull(b, make([]byte, head[1]))
	b.Write([]byte{typeCONNACK << 4, 2, 0, 0})
	b.Write([]byte{typePUBLISH<<4 | atLeastOnceLevel<<1, 6, 0, 1, 't', 0, 9, 'm'})
	if r := <-reads; r.err != nil || r.msg != "m" {
		t.Fatalf("delivery: %+v", r)
	}
	// the application is busy with the message; a publish from another goroutine fails (the broker does not read)
	if err := c.Publish(nil, []byte("x"), "t"); !errors.Is(err, ErrSubmit) {
		t.Fatalf("publish: %v, want ErrSubmit", err)
	}
	// back in the read routine: the PUBACK for 9 is due, the connection is gone
	next <- struct{}{}
	select {
	case r := <-reads:
		if r.err == nil {
			t.Fatalf("ReadSlices: %+v, want an error", r)
		}
	case <-time.After(3 * time.Second):
		t.Fatal("ReadSlices waits for ever on the write token of a connection that has failed")
	}
	// the call after redials, and the acknowledgement kept is the first thing to go out
	next <- struct{}{}
	var b2 net.Conn
	select {
	case b2 = <-conns:
	case <-time.After(3 * time.Second):
		t.Fatal("no redial")
	}
	b2.SetDeadline(time.Now().Add(3 * time.Second))
	if _, err := io.ReadFull(b2, head[:]); err != nil || head[0]>>4 != typeCONNECT {
		t.Fatalf("no CONNECT on the new connection: %x %v", head, err)
	}
	io.ReadFull(b2, make([]byte, head[1]))
	b2.Write([]byte{typeCONNACK << 4, 2, 0, 0})
	var ack [4]byte
	if _, err := io.ReadFull(b2, ack[:]); err != nil || ack != [4]byte{typePUBACK << 4, 2, 0, 9} {
		t.Fatalf("PUBACK 9 does not follow the reconnect: %x %v", ack, err)
	}
}
