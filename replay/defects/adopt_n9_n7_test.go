package mqtt

import (
	"context"
	"errors"
	"net"
	"testing"
)

func n9dial(context.Context) (net.Conn, error) { return nil, errors.New("no dial") }

// N9: negative limits are documented to default to 16,384, yet AdoptSession compares the pending
// count with the raw value.
func TestN9(t *testing.T) {
	p := newVolatile()
	if _, err := InitSession("x", p, &Config{Dialer: n9dial, AtLeastOnceMax: -1, ExactlyOnceMax: -1}); err != nil {
		t.Fatal(err)
	}
	_, warn, err := AdoptSession(p, &Config{Dialer: n9dial, AtLeastOnceMax: -1, ExactlyOnceMax: -1})
	t.Logf("warn=%v err=%v", warn, err)
	if err != nil {
		t.Fatalf("AdoptSession with default (negative) limits on an empty session: %v", err)
	}
}

// N7: only PUBREL records pending.
func TestN7(t *testing.T) {
	p := newVolatile()
	c, err := InitSession("x", p, &Config{Dialer: n9dial, AtLeastOnceMax: 10, ExactlyOnceMax: 10})
	if err != nil {
		t.Fatal(err)
	}
	// store two PUBREL records directly through the client's persistence (sequence numbers 0 and 1)
	for i := uint(0); i < 2; i++ {
		id := exactlyOnceIDSpace | i
		if err := c.persistence.Save(id, net.Buffers{{typePUBREL<<4 | 2, 2, byte(id >> 8), byte(id)}}); err != nil {
			t.Fatal(err)
		}
	}
	a, warn, err := AdoptSession(p, &Config{Dialer: n9dial, AtLeastOnceMax: 10, ExactlyOnceMax: 10})
	if err != nil {
		t.Fatal(err)
	}
	seq := <-a.exactlyOnce.seqSem
	t.Logf("warn=%v Completed=%d Received=%d acceptN=%d queue=%d", warn, a.Completed, a.Received, seq.acceptN, len(a.exactlyOnce.queue))
	if seq.acceptN-a.Completed != uint(len(a.exactlyOnce.queue)) {
		t.Fatalf("acceptN %d - Completed %d != %d pending", seq.acceptN, a.Completed, len(a.exactlyOnce.queue))
	}
}
