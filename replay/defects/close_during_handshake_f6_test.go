package mqtt

import (
	"context"
	"errors"
	"io"
	"net"
	"testing"
	"time"
)

// F6: Close while the read routine awaits CONNACK. ReadSlices must return (ErrClosed), not hang.
func TestF6(t *testing.T) {
	conns := make(chan net.Conn, 1)
	c, err := VolatileSession("f6", &Config{
		Dialer: func(ctx context.Context) (net.Conn, error) {
			a, b := net.Pipe()
			conns <- b
			return a, nil
		},
		PauseTimeout: 5 * time.Second,
	})
	if err != nil {
		t.Fatal(err)
	}
	done := make(chan error, 1)
	go func() {
		_, _, err := c.ReadSlices()
		done <- err
	}()
	b := <-conns
	// take the CONNECT packet, never answer
	var head [2]byte
	if _, err := io.ReadFull(b, head[:]); err != nil {
		t.Fatal(err)
	}
	io.ReadFull(b, make([]byte, head[1]))
	time.Sleep(50 * time.Millisecond) // the client now waits for CONNACK
	closed := make(chan error, 1)
	go func() { closed <- c.Close() }()
	select {
	case <-closed:
	case <-time.After(3 * time.Second):
		t.Error("Close does not return")
	}
	select {
	case err := <-done:
		if !errors.Is(err, ErrClosed) {
			t.Errorf("ReadSlices returned %v, want ErrClosed", err)
		}
	case <-time.After(3 * time.Second):
		t.Fatal("ReadSlices hangs after Close during the handshake")
	}
}
