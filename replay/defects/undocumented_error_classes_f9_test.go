package mqtt

// F9 (C14). Run against a tree with
//   go test -overlay <{"Replace":{"<repo>/zz_f9_test.go":"<this file>"}}> -vet=off -run TestF9 .
// The package documentation: for Subscribe "any other error is guaranteed to be a an ErrSubmit, ErrBreak
// or ErrAbandoned"; for Disconnect "any other error is guaranteed to be an ErrSubmit".

import (
	"context"
	"errors"
	"io"
	"net"
	"testing"
	"time"
)

func f9Documented(err error) bool {
	var se SubscribeError
	return IsDeny(err) || errors.Is(err, ErrMax) || errors.Is(err, ErrClosed) || errors.Is(err, ErrDown) || errors.Is(err, ErrCanceled) ||
		errors.Is(err, ErrSubmit) || errors.Is(err, ErrBreak) || errors.Is(err, ErrAbandoned) || errors.As(err, &se)
}

// a SUBACK with one return code for a SUBSCRIBE with two topic filters
func TestF9SubackCountMismatch(t *testing.T) {
	conns := make(chan net.Conn, 2)
	c, err := VolatileSession("f9", &Config{
		Dialer: func(ctx context.Context) (net.Conn, error) {
			a, b := net.Pipe()
			conns <- b
			return a, nil
		},
		PauseTimeout: time.Second,
	})
	if err != nil {
		t.Fatal(err)
	}
	defer c.Close()
	go func() {
		for {
			if _, _, err := c.ReadSlices(); errors.Is(err, ErrClosed) {
				return
			}
		}
	}()
	b := <-conns
	readPacket := func() []byte {
		b.SetReadDeadline(time.Now().Add(2 * time.Second))
		var head [2]byte
		if _, err := io.ReadFull(b, head[:]); err != nil {
			return nil
		}
		body := make([]byte, head[1])
		io.ReadFull(b, body)
		return append(head[:], body...)
	}
	if p := readPacket(); p == nil || p[0]>>4 != typeCONNECT {
		t.Fatalf("no CONNECT: %x", p)
	}
	b.Write([]byte{typeCONNACK << 4, 2, 0, 0})
	got := make(chan error, 1)
	go func() { got <- c.Subscribe(nil, "a", "b") }()
	p := readPacket()
	if p == nil || p[0]>>4 != typeSUBSCRIBE {
		t.Fatalf("no SUBSCRIBE: %x", p)
	}
	go b.Write([]byte{typeSUBACK << 4, 3, p[2], p[3], 0})
	select {
	case err := <-got:
		if err == nil {
			t.Fatal("Subscribe succeeded on a SUBACK with one return code for two filters")
		}
		if !f9Documented(err) {
			t.Errorf("Subscribe error outside the documented classes: %v", err)
		}
	case <-time.After(3 * time.Second):
		t.Fatal("Subscribe did not return")
	}
}

type f9Conn struct {
	net.Conn
	writeErr, closeErr error
}

func (c f9Conn) Write(p []byte) (int, error) {
	if c.writeErr != nil {
		return 0, c.writeErr
	}
	return c.Conn.Write(p)
}
func (c f9Conn) Close() error {
	c.Conn.Close()
	return c.closeErr
}

// a connection that fails the write of DISCONNECT, respectively its Close
func TestF9Disconnect(t *testing.T) {
	for _, fault := range []string{"write", "close"} {
		conns := make(chan net.Conn, 2)
		c, err := VolatileSession("f9", &Config{
			Dialer: func(ctx context.Context) (net.Conn, error) {
				a, b := net.Pipe()
				conns <- b
				return a, nil
			},
			PauseTimeout: time.Second,
		})
		if err != nil {
			t.Fatal(err)
		}
		go func() {
			for {
				if _, _, err := c.ReadSlices(); errors.Is(err, ErrClosed) {
					return
				}
			}
		}()
		b := <-conns
		go io.Copy(io.Discard, b)
		b.Write([]byte{typeCONNACK << 4, 2, 0, 0})
		select {
		case <-c.Online():
		case <-time.After(2 * time.Second):
			t.Fatal("not online")
		}
		// swap the connection in the write semaphore for one with the fault
		conn := <-c.writeSem
		fc := f9Conn{Conn: conn}
		if fault == "write" {
			fc.writeErr = errors.New("broken pipe")
		} else {
			fc.closeErr = errors.New("close failed")
		}
		c.writeSem <- fc
		err = c.Disconnect(nil)
		if err == nil {
			t.Errorf("%s fault: Disconnect returned nil", fault)
			continue
		}
		if !(errors.Is(err, ErrClosed) || errors.Is(err, ErrDown) || errors.Is(err, ErrCanceled) || errors.Is(err, ErrSubmit)) {
			t.Errorf("%s fault: Disconnect error outside the documented classes: %v", fault, err)
		}
	}
}
