#!/bin/sh
# usage: confirm_seed.sh <id> <srcdir>   — confirms a seeded change in a scratch worktree of /repo
# (build+tests pass with the change; demo fails with it and passes without) and stores it in /verif/seeded/<id>/.
id=$1; src=$2
export GOFLAGS=-mod=mod GOPROXY=off GOSUMDB=off GOTOOLCHAIN=local
wt=/tmp/confirm/$id
rm -rf $wt; mkdir -p /tmp/confirm
base=$(git -C /repo rev-list --max-parents=0 HEAD | tail -1)
git -C /repo worktree add -q --detach $wt $base || exit 2
log=/tmp/confirm/$id.log; : > $log
demo=$(ls $src/*seeded_demo_test.go | head -1)
sub=.
if grep -q '^package mqtttest' $demo; then sub=mqtttest; fi
ok=1
( cd $wt && git apply $src/patch.diff ) >>$log 2>&1 || { echo "$id: patch does not apply"; ok=0; }
if [ $ok = 1 ]; then
  ( cd $wt && go build ./... && go test -vet=off -count=1 ./... ) >>$log 2>&1 || { echo "$id: suite fails with the change"; ok=0; }
fi
cp $demo $wt/$sub/seeded_demo_test.go
if [ $ok = 1 ]; then
  ( cd $wt/$sub && go test -vet=off -count=1 -timeout 120s -run 'Seeded' . ) >>$log 2>&1 && { echo "$id: demo passes WITH the change"; ok=0; }
fi
if [ $ok = 1 ]; then
  ( cd $wt && git apply -R $src/patch.diff ) >>$log 2>&1
  ( cd $wt/$sub && go test -vet=off -count=1 -timeout 120s -run 'Seeded' . ) >>$log 2>&1 || { echo "$id: demo fails WITHOUT the change"; ok=0; }
fi
git -C /repo worktree remove --force $wt
if [ $ok = 1 ]; then
  mkdir -p /verif/seeded/$id
  cp $src/patch.diff /verif/seeded/$id/patch.diff
  cp $demo /verif/seeded/$id/
  python3 - "$id" "$src" <<'PY'
import json,sys
id,src=sys.argv[1],sys.argv[2]
m=json.load(open(src+'/meta.json'))
m['confirmed']={"ran":["git apply patch.diff on a scratch worktree of the pinned commit","go build ./... && go test -vet=off -count=1 ./... (pass)","go test -run Seeded with the change (fail)","git apply -R; go test -run Seeded (pass)"],"by":"tools/confirm_seed.sh"}
json.dump(m,open('/verif/seeded/%s/meta.json'%id,'w'),indent=1)
PY
  echo "$id: confirmed"
fi
