#!/usr/bin/env python3
"""Regenerates /verif/MANIFEST.json from the table below (kept here so the
manifest stays consistent with what is actually claimed)."""
import json, subprocess, os
V = os.path.dirname(os.path.dirname(os.path.abspath(__file__)))
props = [json.loads(l) for l in open(os.path.join(V, 'properties.jsonl'))]
claims = json.load(open(os.path.join(V, 'tools', 'claims.json')))
hooks = subprocess.run(['git', '-C', '/repo', 'log', '--format=%H %s'], capture_output=True, text=True).stdout.strip().split('\n')
hook_commits = [l.split()[0] for l in hooks if ' verif:' in l]
checks = []
na = []
for p in props:
    c = claims.get(p['id'])
    if c and c.get('claimed'):
        checks.append({
            "property_id": p['id'],
            "quick_cmd": "./check %s quick" % p['id'],
            "thorough_cmd": "./check %s thorough" % p['id'],
            "evidence_file": "/verif/evidence/%s.json" % p['id'],
            "replay_cmd_template": "bin/govc replay {path}",
            "engine": "govc",
            "level_claimed": {"category": "proof", "text": c['text'], "design_ref": c.get('design_ref', 'DESIGN.md §9.6 (what is decided now) and §4-' + p['id'] + ' (the plan it grew from)')},
            "level_note": c['note'],
            "technique": c.get('technique', "contract-based deductive verification: weakest-precondition VCs generated from go/ssa of the real functions against //@ contracts, discharged by z3/cvc5"),
        })
    else:
        na.append({"property_id": p['id'], "reason": (c or {}).get('reason', "contracts not completed yet (build in progress, DESIGN.md §8)")})
m = {
    "version": 1,
    "setup_cmd": "cd /verif/govc && GOFLAGS=-mod=mod GOPROXY=off GOSUMDB=off GOTOOLCHAIN=local go build -o ../bin/govc .",
    "hooks": {"guard": "verif", "enable": "-tags verif (comment-only contract files; govc loads /repo with this tag)",
              "baseline_off_cmd": "cd /repo && go test -vet=off -count=1 ./...",
              "source_commits": hook_commits, "add_only": True},
    "engines": [{"name": "govc", "path": "/verif/govc", "serves_properties": [c['property_id'] for c in checks],
                 "kind_free_text": "verification-condition generator over go/ssa (naive form) with Gobra-style contracts in /repo/verif_contracts.go and /verif/contracts/*.spec; obligations raced on z3 4.8.12, z3 5.1.0, cvc5"}],
    "checks": checks,
    "notes": "See DESIGN.md. Exit 0 = all obligations discharged (known findings aside); 1 = VIOLATION; 2 = UNDECIDED (engine error / contract drift), never accompanied by a VIOLATION line. Known findings and fixed defects: /verif/known_findings.json (known: one KNOWN-FINDING line each, exit 0; fixed: suppress nothing). Reproductions of the defects on the real code: /verif/replay/defects/.",
    "not_applicable": na,
}
json.dump(m, open(os.path.join(V, 'MANIFEST.json'), 'w'), indent=1)
print("checks:", [c['property_id'] for c in checks])
