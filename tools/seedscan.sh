#!/bin/sh
# runs every seeded change against its own property's quick check
for d in /verif/seeded/C*; do
  id=$(basename $d | cut -c1-3)
  /verif/tools/runmutant.sh $d/patch.diff $id 2>&1 | head -2 | tr '\n' ' ' | cut -c1-200
  echo
done
