#!/usr/bin/env python3
"""Mutation campaign: small syntactic changes inside functions under contract; those that still compile and
pass the repository's tests are handed to govc for the function they sit in. Prints one line per mutant:
KILLED-BY-TESTS | DETECTED | SURVIVED | NOBUILD, and a summary. Survivors are for reading: they are either
behaviour-preserving or point at a contract that says too little.
usage: mutate.py <count> <seed> [file...]"""
import os, random, re, shutil, subprocess, sys, tempfile
N = int(sys.argv[1]); seed = int(sys.argv[2])
files = sys.argv[3:] or ['client.go', 'request.go', 'mqtt.go']
random.seed(seed)
env = dict(os.environ, GOFLAGS='-mod=mod', GOPROXY='off', GOSUMDB='off', GOTOOLCHAIN='local')
keys = subprocess.run(['/verif/bin/govc', 'funcs'], capture_output=True, text=True).stdout.split()
contracted = set()
for f in ('/repo/verif_contracts.go',):
    for l in open(f):
        m = re.match(r'//@ func (\S+)', l)
        if m: contracted.add(m.group(1))
def func_at(lines, i):
    for j in range(i, -1, -1):
        m = re.match(r'func (\((\w+) (\*?)(\w+)\) )?(\w+)\(', lines[j])
        if m:
            if m.group(1):
                recv = ('(*%s)' % m.group(4)) if m.group(3) else m.group(4)
                return 'mqtt.%s.%s' % (recv, m.group(5))
            return 'mqtt.' + m.group(5)
    return None
ops = [
    (r' < ', ' <= '), (r' <= ', ' < '), (r' > ', ' >= '), (r' >= ', ' > '), (r' == ', ' != '), (r' != ', ' == '),
    (r' && ', ' || '), (r' \|\| ', ' && '), (r' \+ 1\b', ' + 2'), (r' - 1\b', ' - 2'), (r'\+\+$', '--'), (r' \+ 2\b', ' + 3'),
]
cands = []
for f in files:
    lines = open('/repo/' + f).read().split('\n')
    for i, l in enumerate(lines):
        s = l.strip()
        if not s or s.startswith('//') or s.startswith('func ') or '"' in s and 'Errorf' in s:
            continue
        fk = func_at(lines, i)
        if fk not in contracted:
            continue
        for pat, rep in ops:
            for m in re.finditer(pat, l):
                cands.append((f, i, m.start(), m.end(), rep, fk))
        if re.match(r'^\t+[\w.\[\]]+(\[.*\])? (=|\+=|-=) .*[^{]$', l) or re.match(r'^\t+(c|txs|e)\.[\w.]+\(.*\)$', l) or re.match(r'^\t+(close|delete)\(.*\)$', l):
            cands.append((f, i, None, None, 'DELETE', fk))
random.shuffle(cands)
res = {'KILLED-BY-TESTS': 0, 'DETECTED': 0, 'SURVIVED': 0, 'NOBUILD': 0}
done = 0
for (f, i, a, b, rep, fk) in cands:
    if done >= N: break
    tmp = tempfile.mkdtemp(prefix='govc-mut')
    try:
        repo = os.path.join(tmp, 'repo')
        subprocess.run(['rsync', '-a', '--exclude', '.git', '/repo/', repo + '/'], check=True)
        lines = open(os.path.join(repo, f)).read().split('\n')
        orig = lines[i]
        if rep == 'DELETE':
            lines[i] = re.match(r'^\t+', orig).group(0) + '_ = 0 // mutant: deleted'
            desc = 'delete `%s`' % orig.strip()
        else:
            lines[i] = orig[:a] + rep + orig[b:]
            desc = '`%s` -> `%s`' % (orig.strip(), lines[i].strip())
        open(os.path.join(repo, f), 'w').write('\n'.join(lines))
        if subprocess.run(['go', 'build', './...'], cwd=repo, env=env, capture_output=True).returncode != 0 or \
           subprocess.run(['go', 'vet', '-tags', 'verif', '.'], cwd=repo, env=env, capture_output=True).returncode not in (0, 1):
            res['NOBUILD'] += 1; continue
        done += 1
        t = subprocess.run(['go', 'test', '-vet=off', '-count=1', '-timeout', '120s', './...'], cwd=repo, env=env, capture_output=True, text=True)
        if t.returncode != 0:
            res['KILLED-BY-TESTS'] += 1
            print('KILLED-BY-TESTS %s:%d %s %s' % (f, i + 1, fk, desc), flush=True); continue
        targets = [fk] + [k for k in keys if k.startswith(fk + '$') and k in contracted]
        v = subprocess.run(['/verif/bin/govc', 'verify', '-t', '10'] + targets, env=dict(env, GOVC_REPO=repo), capture_output=True, text=True, timeout=900)
        bad = [l for l in v.stdout.split('\n') if l.startswith('  FAIL') or 'ENGINE ERROR' in l]
        if bad:
            res['DETECTED'] += 1
            print('DETECTED %s:%d %s %s  <- %s' % (f, i + 1, fk, desc, bad[0].strip()[:110]), flush=True)
        else:
            res['SURVIVED'] += 1
            print('SURVIVED %s:%d %s %s' % (f, i + 1, fk, desc), flush=True)
    finally:
        shutil.rmtree(tmp, ignore_errors=True)
print('SUMMARY', res)
