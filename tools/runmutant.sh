#!/bin/sh
# usage: runmutant.sh <patch.diff> <property>...
# Applies the patch to a scratch copy of /repo's working tree and runs the quick checks there.
# Prints one line per property: <prop> exit=<code> and the VIOLATION lines.
patch=$(readlink -f "$1"); shift
tmp=$(mktemp -d /tmp/mutant.XXXXXX)
rsync -a --exclude .git /repo/ $tmp/repo/
( cd $tmp/repo && git init -q . 2>/dev/null; patch -p1 -s < "$patch" ) || { echo "patch failed"; rm -rf $tmp; exit 3; }
for p in "$@"; do
  GOVC_REPO=$tmp/repo GOVC_OUTROOT=$tmp/o /verif/bin/govc check --property $p --tier quick > $tmp/$p.log 2>&1
  echo "$p exit=$?"
  grep -E "^(VIOLATION|UNDECIDED|ENGINE)" $tmp/$p.log | cut -c1-220
done
rm -rf $tmp
