#!/usr/bin/env python3
"""Regenerates DESIGN.md §9.6 (per-property state) from tools/claims.json."""
import json, os
V = os.path.dirname(os.path.dirname(os.path.abspath(__file__)))
c = json.load(open(os.path.join(V, 'tools', 'claims.json')))
titles = {}
for l in open(os.path.join(V, 'properties.jsonl')):
    p = json.loads(l); titles[p['id']] = p['title']
out = ["### 9.6 Per property: what the check decides on the current tree\n",
"Generated from `tools/claims.json` by `tools/mkdesign96.py` (the same text is\n`level_claimed.text` in `MANIFEST.json`); §4 above is the plan these grew from.\nEvery check is level *proof* for exactly what its text states, per call of the\nnamed functions, for all inputs; the sentences starting \"Not decided\" name what\nthe contracts leave open.\n"]
for k in sorted(c):
    out.append("**%s — %s.** %s\n" % (k, titles[k], c[k]['text']))
    if c[k].get('note'):
        out.append("*Assumptions, besides those listed in every evidence file:* %s\n" % c[k]['note'])
txt = "\n".join(out) + "\n"
p = os.path.join(V, 'DESIGN.md')
s = open(p).read()
marker = '## Appendix A — draft contracts of the anchor functions'
a = s.index('### 9.6 Per property'); b = s.index(marker)
open(p, 'w').write(s[:a] + txt + s[b:])
