#!/bin/sh
# runs every must-fail change against the property named by its file name prefix, and every must-pass change against the properties given
for m in /verif/selftest/mutants/*.diff; do
  p=$(basename $m | cut -c1-3)
  echo "$(basename $m): $(/verif/tools/runmutant.sh $m $p 2>&1 | head -2 | tr '\n' ' ' | cut -c1-180)"
done
