#!/bin/sh
# every behaviour-preserving change against every property's quick check: all must exit 0
for h in /verif/selftest/harmless/*.diff; do
  echo "$(basename $h): $(/verif/tools/runmutant.sh $h C01 C02 C03 C04 C05 C06 C07 C08 C09 C10 C11 C12 C13 C14 C15 C16 C17 C18 C19 C20 2>&1 | grep -v 'exit=0' | tr '\n' ' ' | cut -c1-300)"
done
